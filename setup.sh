#!/bin/sh
# Offline setup: nothing to build (pure-Python harness, repo imported from /repo/src by each check).
set -e
cd "$(dirname "$0")"
chmod +x check
/venv/bin/python - <<'PY'
import sys
sys.path.insert(0, "/repo/src")
import dvc_data, dvc_objects, blake3, diskcache, sqltrie, pygtrie, dictdiffer  # noqa
assert dvc_data.__file__.startswith("/repo/src"), dvc_data.__file__
print("setup ok: dvc_data from", dvc_data.__file__)
PY
mkdir -p evidence replays
