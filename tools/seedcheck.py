#!/usr/bin/env python3
"""Confirm a seeded defect and run our checks against it.

usage: tools/seedcheck.py PID mN [--checks C01,C02] [--tier quick|thorough] [--keep]

1. in the scratch worktree /tmp/mut/PID: apply the diff, run the repository's test-suite (must stay green),
   run the demo (must exit 1), revert, run the demo again (must exit 0);
2. apply the diff to /repo, run the named checks (default: the property's own check, quick tier), revert;
3. write /verif/seeded/PID-mN/{patch.diff, demo.py, notes.md, meta.json}.
"""

import argparse
import json
import os
import shutil
import subprocess
import sys
import time

PY = "/venv/bin/python"


def sh(cmd, cwd=None, env=None, timeout=1800):
    p = subprocess.run(cmd, shell=isinstance(cmd, str), cwd=cwd, env=env, capture_output=True, text=True, timeout=timeout)
    return p.returncode, p.stdout + p.stderr


def main():
    ap = argparse.ArgumentParser()
    ap.add_argument("pid")
    ap.add_argument("mut")
    ap.add_argument("--checks", default=None)
    ap.add_argument("--tier", default="quick")
    ap.add_argument("--src", default=None, help="directory holding mN.diff / mN_demo.py / mN.md (default /tmp/mut/PID-out)")
    ap.add_argument("--skip-confirm", action="store_true")
    a = ap.parse_args()
    pid, mut = a.pid, a.mut
    src = a.src or f"/tmp/mut/{pid}-out"
    dest = f"/verif/seeded/{pid}-{mut}"
    if a.src is None and not os.path.exists(os.path.join(src, f"{mut}.diff")) and os.path.exists(os.path.join(dest, "patch.diff")):
        src = None
    if src:
        diff = os.path.join(src, f"{mut}.diff")
        demo = os.path.join(src, f"{mut}_demo.py")
        notes = os.path.join(src, f"{mut}.md")
    else:
        diff, demo, notes = (os.path.join(dest, n) for n in ("patch.diff", "demo.py", "notes.md"))
    wt = f"/tmp/mut/{pid}"
    meta = {"property": pid, "mutant": mut, "confirmed": {}, "checks": {}}
    if os.path.exists(dest + "/meta.json"):
        try:
            old = json.load(open(dest + "/meta.json"))
            meta["confirmed"] = old.get("confirmed", {})
            meta["needs"] = old.get("needs")
            meta["checks"] = old.get("checks", {})
        except Exception:  # noqa: BLE001
            pass
    env = dict(os.environ, PYTHONPATH=f"{wt}/src", PYTHONDONTWRITEBYTECODE="1")

    if not a.skip_confirm and os.path.isdir(wt):
        sh("git checkout -- . && git clean -fdq", cwd=wt)
        rc, out = sh(f"git apply {diff}", cwd=wt)
        if rc:
            print("diff does not apply in worktree:", out[-500:])
            return 2
        rc, out = sh(f"{PY} -m pytest -q -p no:cacheprovider --timeout=900 tests 2>&1 | tail -3", cwd=wt, env=env)
        tests_line = out.strip().splitlines()[-1] if out.strip() else ""
        tests_ok = " passed" in tests_line and "failed" not in tests_line and "error" not in tests_line
        rc1, out1 = sh([PY, demo], cwd=wt, env=env, timeout=600)
        sh("git checkout -- . && git clean -fdq", cwd=wt)
        rc0, out0 = sh([PY, demo], cwd=wt, env=env, timeout=600)
        meta["confirmed"] = {"tests_with_change": tests_line, "tests_green": tests_ok, "demo_exit_with_change": rc1,
                             "demo_exit_without_change": rc0, "demo_output_with_change": out1[-600:]}
        print(f"[confirm] tests: {tests_line} | demo with change rc={rc1} | without rc={rc0}")
        if not (tests_ok and rc1 == 1 and rc0 == 0):
            print("NOT CONFIRMED — not kept")
            return 3

    os.makedirs(dest, exist_ok=True)
    if src:
        shutil.copy(diff, dest + "/patch.diff")
        shutil.copy(demo, dest + "/demo.py")
        if os.path.exists(notes):
            shutil.copy(notes, dest + "/notes.md")
            meta["needs"] = open(notes).read()[:1500]

    # ---- our checks against it
    rc, out = sh("git status --porcelain -- src", cwd="/repo")
    if out.strip():
        print("/repo has local changes, refusing")
        return 2
    rc, out = sh(f"git apply {dest}/patch.diff", cwd="/repo")
    if rc:
        print("diff does not apply to /repo:", out[-400:])
        return 2
    try:
        for chk in (a.checks.split(",") if a.checks else [pid]):
            t0 = time.time()
            rc, out = sh(["/verif/check", chk, "--tier", a.tier, "--no-evidence"], cwd="/verif", timeout=3600)
            keys = [ln.strip() for ln in out.splitlines() if ln.startswith("   ") and " x " in ln]
            verdict = {0: "MISSED (held)", 1: "CAUGHT", 2: "inconclusive"}.get(rc, f"rc={rc}")
            meta["checks"][f"{chk}/{a.tier}"] = {"verdict": verdict, "rc": rc, "keys": keys[:8], "wall_s": round(time.time() - t0, 1),
                                               "last": [ln for ln in out.splitlines() if ln.startswith(("HELD", "VIOLATED", "INCONCLUSIVE"))][-1:]}
            print(f"[{chk} {a.tier}] {verdict} {keys[:4]}")
    finally:
        sh("git checkout -- .", cwd="/repo")
    meta["what_was_run"] = "tools/seedcheck.py: suite + demo in scratch worktree (with/without change), then ./check <id> against /repo with the patch applied, then reverted"
    with open(dest + "/meta.json", "w") as f:
        json.dump(meta, f, indent=1)
    return 0


if __name__ == "__main__":
    sys.exit(main())
