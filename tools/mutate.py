#!/usr/bin/env python3
"""Ad-hoc sensitivity probe: tools/mutate.py FILE 'old' 'new' PID [PID...]  (applies to /repo, runs quick checks, reverts)"""
import subprocess, sys
f, old, new, pids = sys.argv[1], sys.argv[2], sys.argv[3], sys.argv[4:]
p = "/repo/" + f
s = open(p).read()
assert s.count(old) >= 1, "pattern not found"
open(p, "w").write(s.replace(old, new, 1))
try:
    t = subprocess.run("cd /repo && /venv/bin/python -m pytest -q -p no:cacheprovider -x --timeout=900 2>&1 | tail -1", shell=True, capture_output=True, text=True)
    print("baseline:", t.stdout.strip())
    for pid in pids:
        r = subprocess.run(["/verif/check", pid, "--tier", "quick", "--no-evidence"], capture_output=True, text=True)
        lines = [l for l in r.stdout.splitlines() if not l.startswith("VIOLATION") and not l.startswith("  key=")]
        print(pid, "rc=", r.returncode, "|", " / ".join(lines[-6:])[:900])
finally:
    subprocess.run(["git", "-C", "/repo", "checkout", "--", f])
