#!/bin/sh
# Re-run every kept seeded defect against the current checks (quick tier unless $1 given); prints one line each.
tier=${1:-quick}
cd /verif || exit 2
for d in seeded/*/; do
  n=$(basename "$d"); pid=${n%%-*}; m=${n#*-}
  printf "%s " "$n"; tools/seedcheck.py "$pid" "$m" --skip-confirm --tier "$tier" 2>&1 | tail -1
done
