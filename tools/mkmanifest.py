#!/usr/bin/env python3
"""Regenerate /verif/MANIFEST.json from the table below (only implemented properties are claimed)."""

import json
import os
import sys

HERE = os.path.dirname(os.path.dirname(os.path.abspath(__file__)))

T = {
    "C01": ("exploration", "§4 C01",
            "store auditor (independent re-hash of every object, hand-assembled canonical listing) after every step and every add() of random multi-store histories",
            "Random histories of stage/add/transfer/save/migrate/gc/checkout (incl. a long-lived workspace that is staged, rotated and staged again, and directories with several >1 MiB files) over 1-3 stores of both classes; after every step and after every HashFileDB.add call an independent auditor re-hashes every object file and re-encodes every directory listing. Sampled, not exhaustive: the claim is 'held on the histories explored'.",
            "trusts hashlib/blake3, os.walk and the kernel; directories staged under non-md5 algorithms are outside the property's operation sequences (DESIGN §0.3)"),
    "C02": ("exploration", "§4 C02",
            "workspace walk vs generated tree after stage->transfer->checkout (object and index routes), reload vs independent listing",
            "Random trees through both store classes, every available link type, with/without state, object-level checkout and index compare/apply (explicit entries and lazily loaded directory objects); bytes and paths compared with the generator's own record; second legs: the checkout is staged again (same object expected) and a second generation (equal-sized files swapped by rename, mtimes preserved) goes round again through the same state.",
            "reflink unavailable on this sandbox's filesystems (falls back to copy); tmpfs scratch"),
    "C03": ("exploration", "§4 C03",
            "oid/bytes across all permutations (<=5 entries) and staging configurations vs hand encoder; run-wide collision map",
            "All insertion permutations of small entry sets plus sampled larger ones, metadata noise, job counts, large-file thresholds, shuffled walk order, cold/warm state; bytes compared with a hand-written canonical encoder and checked for injectivity across the run.",
            "permutation space exhaustive only for sets of <=5 entries; parallel hashing path reached through files > threshold"),
    "C04": ("fault_enumeration", "§4 C04",
            "closure monitor evaluated after every upload event and at every enumerated crash point; exhaustive upload-failure subsets for <=6 objects",
            "For trees sharing files: every subset of failing uploads (<=6 objects, sampled above), closure (dir object => files) checked after every single upload and at the end, directory withheld+reported, fault-free retry completes; a history through one destination index with an external loss in between; source objects vanishing between status and upload; plus process kills at enumerated mutating events of the same transfers.",
            "faults = OSError from the destination's put/copy; crash = process death at a Python-visible fs event (no power loss)"),
    "C05": ("exploration", "§4 C05",
            "lost-bytes accounting of the workspace against the cache before/after non-forced checkout; shadow model of the link table",
            "Random prior workspaces (user files cached or not, edits, replacements, deletions, kind swaps) x targets x store class x link type x relink x prompt absent / declining / agreeing to the first question only (what was agreed to may go, nothing else) x read-only store handle; any workspace byte string that disappears must be intact in the cache; link clean-up histories checked against a shadow model.",
            "user edits to linked files are done by replace-by-rename (in-place writes through links are the user corrupting the cache)"),
    "C06": ("exploration", "§4 C06",
            "before/after store listing vs set-difference model, return value, dry-run and read-only refusals",
            "Random stores (files, dir objects, shared files, strays) x used sets (present, absent, foreign-algorithm ids) x shallow/expanding x dry/real x both store classes, compared with an independent set-difference model.",
            "stray non-object files are outside the model"),
    "C07": ("exploration", "§4 C07",
            "check/oids_exist/checkout/verify verdicts vs tamper ground truth, with cold/warm/pre-tamper state rows",
            "Objects added to both store classes, tampered in five ways (always leaving them unprotected, token change guaranteed) with the state cache in three modes; check, local existence query, checkout and verifying add must reject+delete; intact objects must survive and end read-only.",
            "tamper leaves mode != 0o444 (the property's exclusion); stat-token change enforced by the harness"),
    "C08": ("exploration", "§4 C08",
            "reported changes vs flat key-by-key reference + self-diff / swap / conservation relations over random and enumerated index pairs",
            "Random pairs of nested indexes in implicit/explicit/hashed styles under every allowed option combination, compared with a flat reference written from the statement; rename pairing checked for validity and maximality.",
            "shallow=True checked for classification, no duplicates and that every changed one-sided key with no hashed entry above it on its own side is reported (what else it leaves out is not judged); shortcut mode checked on hash-consistent indexes"),
    "C09": ("exploration", "§4 C09",
            "workspace walk vs target after compare+apply; second compare against a freshly built target must be empty",
            "Random (prior, target) tree pairs incl. file<->directory swaps at depth, nested deletions, exec bits, explicit vs lazily loaded targets (also without entries for intermediate directories, for every link type), link types and link-type lists whose first type is unavailable, delete on/off, unavailable sources and entries without hash.",
            "workspace index built with index.build + md5 as dvc does"),
    "C10": ("exploration", "§4 C10",
            "workspace walk + lstat/readlink/inode checks, zero-mutation audit on the second checkout, cache byte snapshot, link record recomputation",
            "Random (prior,target) pairs x every (existing, configured) link type pair x store classes x state; forced checkout converges, second call returns None and emits no mutating fs event, relink gives the configured type, cache bytes unchanged, link record matches.",
            "reflink unavailable here; run as root"),
    "C11": ("fault_enumeration", "§4 C11",
            "TransferResult vs independent destination listing, upload log and source snapshot under enumerated upload-failure subsets",
            "Requests (files, dirs, shallow/expanded) over arbitrary initial contents, every failure subset for small object sets, corrupt sources under verify (file objects and still-parseable directory objects), destinations with a hash-state cache, directories with files missing on both sides, two pushes sharing an index with an external deletion in between; result sets compared with what an independent listing shows.",
            "faults = OSError from upload; source integrity side effects of LocalHashFileDB.check are avoided by using base-class sources where stated"),
    "C12": ("exploration", "§4 C12",
            "status / compare_status answers vs independent listing (both lookup strategies reached); index contents vs upload log over shared-index histories",
            "Stores of all classes (remote-like with mined '00' objects and small listing pages so both existence strategies run; local stores with unprotected valid objects incl. the empty one); answers judged against the contents at query time and the query must not change the store; histories of transfers (with failures), external deletions and queries sharing one on-disk index through one or two handles; no indexed directory may be absent after a validating query.",
            "remote emulated by a non-local FileSystem over local disk"),
    "C13": ("exploration", "§4 C13",
            "every state-derived hash compared with hashlib on the bytes read at the same instant, over mutation/query interleavings and batch sizes across the 999 boundary",
            "Mutation histories (grow, shrink, same-size rewrite, rename-replace also inode-only / size-only, touch, delete, re-create, symlinked files) interleaved with single/batched/staging/index queries on tmpfs and ext4; injected foreign rows; queries during which another writer rewrites a file right after it was read.",
            "mutations outside the quantifier (identical inode,mtime,size) are nudged by 1us and counted"),
    "C14": ("exploration", "§4 C14",
            "digest, pass-through bytes and byte counts vs hashlib/blake3 for random contents, algorithms, entry points and read-size sequences",
            "Contents around the sniff window and read size x all algorithm names (case variants, blake3) x five entry points x read-size plans; CRLF/LF variant pairs and binary detection for the legacy md5.",
            "trusts hashlib and the blake3 wheel"),
    "C15": ("fault_enumeration", "§4 C15",
            "process killed at enumerated fs-mutating audit events; post-mortem store+state audit; re-run compared with an uninterrupted golden run",
            "Six scenarios (stage+transfer, index save with full or sparse directory entries, store-to-store with shared files, upload staging, plain add) x generated trees; child process dies at the n-th mutating event (every n in thorough), optionally after a partial copy; parent audits store, state DB and closure, then re-runs and compares with golden.",
            "crash = process death at a Python-visible event; SQLite journaling trusted; no power loss"),
    "C16": ("exploration", "§4 C16",
            "per-writer manifests vs shared store after concurrent thread/process writers with seeded jitter at every fs-operation boundary",
            "N writers stage and transfer heavily overlapping content into one local store sharing one state DB; schedules perturbed at audit-hook boundaries; every writer must succeed and the store must match every manifest. Reports distinct interleaving signatures seen.",
            "schedules sampled, not enumerated; no Python race detector exists"),
    "C17": ("exploration", "§4 C17",
            "lazy index vs harness-built explicit twin under random access sequences; view vs filter; adaptor vs data",
            "Indexes mixing files, explicit dirs and unloaded dir objects (in-memory and SQLite), random operation orders, prefix-closed filters, DataFileSystem ls/info/find/cat.",
            "projection compares key/isdir/hash (sizes only where both sides have them)"),
    "C18": ("fault_enumeration", "§4 C18",
            "remote/cache listings vs independently computed reachable sets, counts, and retry under enumerated first-round upload-failure subsets",
            "Indexes over nested trees (explicit or with top-level directories as unloaded entries) with storage prefixes at the root, at sibling top-level directories or one level deeper, own or shared caches/remotes, shuffled registration order; push after collect, fetch into empty caches, checkout; every failure subset for small object sets then a clean retry; per-role longest-prefix resolution checked against an independent resolver.",
            "remotes emulated over local disk"),
    "C19": ("exploration", "§4 C19",
            "_merge outcome vs per-key three-way rule over the complete 3-key x 3-value universe, all policies, both argument orders",
            "All 19 683 (ancestor, ours, theirs) triples over a 3-key universe with nested keys x 5 policies x both orders already in quick (4-key universe, 531 441 triples, in thorough) + random 6-key triples; merge() through a real store incl. non-canonically stored listings, fast-forwards, policy sequences on the same trees and an unavailable ancestor object.",
            "MergeError is always an acceptable outcome"),
    "C20": ("exploration", "§4 C20",
            "serialised projection before vs after JSON / key-value DB / SQLite-backed round trips over all optional-field combinations",
            "Random indexes with every optional field combination incl. falsy values, non-ASCII keys, .dir hashes through write_json/read_json, write_db/read_db, DataIndex.open commit/close/reopen (also same-key histories and a lazily expanded directory entry), dict round trips and with-metadata listings; the projection is read off the attributes, not through to_dict.",
            "keys for the two textual forms are non-empty and '/'-free as the property states"),
}

NOT_YET = {}


def main():
    impl = sorted(
        f[:-3].upper() for f in os.listdir(os.path.join(HERE, "vt", "props")) if f.startswith("c") and f.endswith(".py")
    )
    checks, na = [], []
    for pid in sorted(T):
        level, ref, technique, text, note = T[pid]
        if pid not in impl:
            na.append({"property_id": pid, "reason": NOT_YET.get(pid, "monitor not built yet in this revision of /verif (planned: DESIGN.md " + ref + ")")})
            continue
        checks.append(
            {
                "property_id": pid,
                "quick_cmd": f"./check {pid} --tier quick",
                "thorough_cmd": f"./check {pid} --tier thorough",
                "evidence_file": f"/verif/evidence/{pid}.json",
                "replay_cmd_template": f"./check {pid} --replay {{path}}",
                "engine": "vt",
                "level_claimed": {"category": level, "text": text, "design_ref": "DESIGN.md " + ref},
                "level_note": note,
                "technique": "runtime monitoring: " + technique,
            }
        )
    hooks_commits = []
    hc = os.path.join(HERE, "hooks_commits.txt")
    if os.path.exists(hc):
        hooks_commits = [ln.split()[0] for ln in open(hc) if ln.strip() and not ln.startswith("#")]
    m = {
        "version": 1,
        "setup_cmd": "sh ./setup.sh",
        "hooks": {
            "guard": "DVC_DATA_VERIF",
            "enable": "no source hooks: monitors attach from outside (sys.addaudithook, class/function wrapping, a FileSystem subclass); workers run with PYTHONPATH=/repo/src and DVC_DATA_VERIF=1",
            "baseline_off_cmd": "cd /repo && env -u DVC_DATA_VERIF /venv/bin/python -m pytest -ra -q -p no:cacheprovider --timeout=900 --continue-on-collection-errors",
            "source_commits": hooks_commits,
            "add_only": True,
        },
        "engines": [
            {
                "name": "vt",
                "path": "/verif/vt",
                "serves_properties": [c["property_id"] for c in checks],
                "kind_free_text": "runtime monitoring harness: seeded hostile workloads against the real code imported from /repo/src, audit-hook record/fault/crash/jitter injection, independent oracles (vt/oracle.py), sharded over 16 worker processes",
            }
        ],
        "checks": checks,
        "not_applicable": na,
        "notes": "Verdicts: exit 0 held / known findings only, exit 1 VIOLATION, exit 2 inconclusive (watchdog or a deciding monitor never reached). Known findings: /verif/known_findings.json. Compiler sanitizers do not apply: dvc-data is pure Python (DESIGN.md §0.4).",
    }
    with open(os.path.join(HERE, "MANIFEST.json"), "w") as f:
        json.dump(m, f, indent=1)
        f.write("\n")
    print("claimed:", [c["property_id"] for c in checks], "not yet:", [n["property_id"] for n in na])


if __name__ == "__main__":
    sys.exit(main())
