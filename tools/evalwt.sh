#!/bin/sh
# tools/evalwt.sh <suffix> <m...> : first-contact evaluation of a delivered batch in the scratch worktrees only (nothing is applied to /repo):
# confirm (suite green, demo fails with / passes without) and the property's own quick check against the patched worktree
suffix=$1; shift
cd /verif || exit 2
for i in $(seq -w 1 20); do pid=C$i; wt=/tmp/mut/$pid
  for m in "$@"; do
    f=/tmp/mut/$pid-$suffix/$m.diff; [ -f $f ] || continue
    git -C $wt checkout -q -- .; git -C $wt apply $f 2>/dev/null || { echo "== $pid $m does not apply"; continue; }
    t=$(cd $wt && PYTHONPATH=$wt/src /venv/bin/python -m pytest -q -p no:cacheprovider --timeout=900 tests 2>&1 | tail -1 | cut -c1-40)
    r1=$(cd $wt && PYTHONPATH=$wt/src timeout 600 /venv/bin/python /tmp/mut/$pid-$suffix/${m}_demo.py >/dev/null 2>&1; echo $?)
    v=$(VERIF_REPO=$wt ./check $pid --tier quick --seed 1 --no-evidence 2>&1 | grep "^HELD\|^VIOLATED\|^INCON\|^   " | head -4 | cut -c1-110 | tr '\n' ' ')
    git -C $wt checkout -q -- .
    r0=$(cd $wt && PYTHONPATH=$wt/src timeout 600 /venv/bin/python /tmp/mut/$pid-$suffix/${m}_demo.py >/dev/null 2>&1; echo $?)
    echo "== $pid $m [$t | demo with=$r1 without=$r0] $v"
  done
done
