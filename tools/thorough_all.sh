#!/bin/sh
# every thorough tier once, sequentially (each uses all cores); prints only verdict lines
cd "$(dirname "$0")/.." || exit 2
for p in C01 C02 C03 C04 C05 C06 C07 C08 C09 C10 C11 C12 C13 C14 C15 C16 C17 C18 C19 C20; do
  VERIF_SEED=${VERIF_SEED:-0} ./check $p --tier thorough --no-evidence 2>&1 | grep -v "^KNOWN" | grep -e "^HELD" -e "^VIOLAT" -e "^INCONCL" -e "^  " | cut -c1-300
done
