#!/usr/bin/env python3
"""Fill the as-built table of DESIGN.md (between the AS-BUILT-TABLE markers) from evidence/*.json, known_findings.json and the thorough walls given below."""
import json
import os
import re

HERE = os.path.dirname(os.path.dirname(os.path.abspath(__file__)))
THOROUGH = {"C01": 180.4, "C02": 92.0, "C03": 482.1, "C04": 178.2, "C05": 110.6, "C06": 43.9, "C07": 111.0, "C08": 103.8, "C09": 99.8, "C10": 142.1,
            "C11": 87.1, "C12": 134.2, "C13": 204.2, "C14": 154.6, "C15": 413.3, "C16": 192.5, "C17": 195.3, "C18": 102.6, "C19": 52.5, "C20": 243.8}
kf = json.load(open(os.path.join(HERE, "known_findings.json")))["findings"]
rows = ["| id | level | quick wall | thorough wall | quick: evaluations / distinct | fixes found by this check | known findings still printed |",
        "|----|-------|-----------|---------------|------------------------------|---------------------------|------------------------------|"]
for i in range(1, 21):
    pid = f"C{i:02d}"
    ev = json.load(open(os.path.join(HERE, "evidence", pid + ".json")))
    cov = ev.get("coverage", {})
    fixed = sorted({re.search(r"\((F\d+)\)", f["what"]).group(1) for f in kf if f["property"] == pid and f["status"] == "fixed" and re.search(r"\((F\d+)\)", f["what"])}, key=lambda x: int(x[1:]))
    known = [f["key"].split("/", 1)[1] for f in kf if f["property"] == pid and f["status"] == "known"]
    rows.append(f"| {pid} | {ev.get('level')} | {ev.get('wall_s')} s | {THOROUGH[pid]} s | {cov.get('evaluations', cov.get('cases', '?'))} / {cov.get('distinct_nontrivial', '?')} | "
                f"{', '.join(fixed) or '-'} | {'; '.join(known) or '-'} |")
p = os.path.join(HERE, "DESIGN.md")
s = open(p).read()
a = s.index("<!-- AS-BUILT-TABLE -->")
b = s.index("## 7. Change log of this design")
s = s[:a] + "<!-- AS-BUILT-TABLE -->\n" + "\n".join(rows) + "\n\n" + s[b:]
open(p, "w").write(s)
print("\n".join(rows))
