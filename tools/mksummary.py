#!/usr/bin/env python3
"""Fill the as-built table of DESIGN.md (between the AS-BUILT-TABLE markers) from evidence/*.json, known_findings.json and the thorough walls given below."""
import json
import os
import re

HERE = os.path.dirname(os.path.dirname(os.path.abspath(__file__)))
THOROUGH = {"C01": 87.8, "C02": 48.8, "C03": 482.1, "C04": 129.4, "C05": 74.8, "C06": 17.2, "C07": 73.7, "C08": 81.1, "C09": 64.7, "C10": 115.6,
            "C11": 45.4, "C12": 69.6, "C13": 173.9, "C14": 164.5, "C15": 392.7, "C16": 189.4, "C17": 167.6, "C18": 103.4, "C19": 55.0, "C20": 230.9}
kf = json.load(open(os.path.join(HERE, "known_findings.json")))["findings"]
rows = ["| id | level | quick wall | thorough wall | quick: evaluations / distinct | fixes found by this check | known findings still printed |",
        "|----|-------|-----------|---------------|------------------------------|---------------------------|------------------------------|"]
for i in range(1, 21):
    pid = f"C{i:02d}"
    ev = json.load(open(os.path.join(HERE, "evidence", pid + ".json")))
    cov = ev.get("coverage", {})
    fixed = sorted({re.search(r"\((F\d+)\)", f["what"]).group(1) for f in kf if f["property"] == pid and f["status"] == "fixed" and re.search(r"\((F\d+)\)", f["what"])}, key=lambda x: int(x[1:]))
    known = [f["key"].split("/", 1)[1] for f in kf if f["property"] == pid and f["status"] == "known"]
    rows.append(f"| {pid} | {ev.get('level')} | {ev.get('wall_s')} s | {THOROUGH[pid]} s | {cov.get('evaluations', cov.get('cases', '?'))} / {cov.get('distinct_nontrivial', '?')} | "
                f"{', '.join(fixed) or '-'} | {'; '.join(known) or '-'} |")
p = os.path.join(HERE, "DESIGN.md")
s = open(p).read()
a = s.index("<!-- AS-BUILT-TABLE -->")
b = s.index("## 7. Change log of this design")
s = s[:a] + "<!-- AS-BUILT-TABLE -->\n" + "\n".join(rows) + "\n\n" + s[b:]
open(p, "w").write(s)
print("\n".join(rows))
