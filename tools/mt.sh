#!/bin/sh
# tools/mt.sh <Cxx> <mN> <check> [outdir-suffix] [seed] : apply a delivered change to its scratch worktree (never to /repo) and run one quick check against that tree
pid=$1; m=$2; chk=$3; suf=${4:-out7}; seed=${5:-1}
git -C /tmp/mut/$pid apply /tmp/mut/$pid-$suf/$m.diff || exit 2
printf "%s %s vs %s: " $pid $m $chk
VERIF_REPO=/tmp/mut/$pid /verif/check $chk --tier quick --seed $seed --no-evidence 2>&1 | grep "^HELD\|^VIOLATED\|^INCON\|^   " | cut -c1-160 | head -6
git -C /tmp/mut/$pid checkout -q -- .
