#!/bin/sh
# tools/evalbatch.sh <suffix> <m...>   e.g. tools/evalbatch.sh out4 m7 m8 m9   : confirm + evaluate every delivered change of a batch
suffix=$1; shift
cd /verif || exit 2
for i in $(seq -w 1 20); do pid=C$i
  for m in "$@"; do
    [ -f /tmp/mut/$pid-$suffix/$m.diff ] || continue
    [ -f seeded/$pid-$m/meta.json ] && continue
    printf "== %s %s " $pid $m; tools/seedcheck.py $pid $m --src /tmp/mut/$pid-$suffix 2>&1 | tail -1
  done
done
