"""One shard of one property: python -m vt.worker PID TIER SEED SHARD NSHARDS OUT [CASE]"""

import importlib
import json
import logging
import os
import sys
import time
import traceback


def main(argv):
    pid, tier, seed, shard, nshards, out = argv[0], argv[1], int(argv[2]), int(argv[3]), int(argv[4]), argv[5]
    case = int(argv[6]) if len(argv) > 6 and argv[6] != "" else None

    from . import env
    from .common import Ctx
    from .plans import plan

    if case is not None and os.environ.get("VERIF_DEBUG"):
        logging.basicConfig(level=logging.DEBUG, stream=sys.stderr)
    else:
        logging.disable(logging.CRITICAL)
    os.environ.setdefault("TQDM_DISABLE", "1")
    t0 = time.monotonic()
    p = plan(pid, tier)
    ctx = Ctx(pid, tier, seed, shard, nshards, replay_case=case, budget_s=p["budget_s"])
    ctx.plan = p
    try:
        env.assert_repo_under_test()
        mod = importlib.import_module(f"vt.props.{pid.lower()}")
        mod.run_shard(ctx)
    except Exception as e:  # noqa: BLE001
        from .common import classify_exception

        where, func = classify_exception(e)
        tb = "".join(traceback.format_exception(type(e), e, e.__traceback__))[-4000:]
        if where == "repo":
            ctx.res.violation(
                f"unexpected-exception/{type(e).__name__}@{func}",
                f"shard aborted by {type(e).__name__}: {e}"[:300],
                detail={"traceback": tb},
            )
        ctx.res.inconclusive = f"shard aborted: {type(e).__name__}: {e}"[:300]
        ctx.res.notes.append(tb)
    finally:
        try:
            ctx.cleanup()
        except Exception:  # noqa: BLE001
            pass
    d = ctx.res.dump()
    d["wall_s"] = round(time.monotonic() - t0, 3)
    with open(out, "w", encoding="utf-8") as f:
        json.dump(d, f)
    return 0


if __name__ == "__main__":
    sys.exit(main(sys.argv[1:]))
