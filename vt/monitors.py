"""Observation and injection points that need no change to the repository.

* AuditHub  - one sys.addaudithook dispatcher: record / raise OSError / os._exit / sleep at
              every filesystem-mutating call the interpreter makes.
* FaultyFS  - a non-local dvc_objects FileSystem over local disk: a "remote".  Forces the base
              HashFileDB code paths, logs every upload, fails chosen uploads.
* wrap_everywhere - replace a function object in every module namespace that imported it.
"""

import errno
import os
import posixpath
import sys
import threading
import time

_MUT_FLAGS = os.O_WRONLY | os.O_RDWR | os.O_CREAT | os.O_TRUNC | os.O_APPEND

_EVENTS = {
    "open", "os.rename", "os.chmod", "os.link", "os.symlink", "os.remove", "os.mkdir", "os.rmdir",
    "os.truncate", "os.utime", "shutil.copyfile", "shutil.move", "shutil.rmtree", "shutil.copymode",
    "shutil.copystat",
}


def _s(p):
    if isinstance(p, bytes):
        return os.fsdecode(p)
    if isinstance(p, str):
        return p
    if isinstance(p, int) or p is None:
        return None
    try:
        return os.fspath(p)
    except TypeError:
        return None


def normalise(event, args):
    """-> (kind, path, path2, extra) for mutating events, else None."""
    if event == "open":
        path, mode, flags = args[0], args[1], args[2]
        p = _s(path)
        if p is None:
            return None
        if isinstance(flags, int) and flags & _MUT_FLAGS:
            return ("open-w", p, None, flags)
        return None
    if event == "os.rename":
        return ("rename", _s(args[0]), _s(args[1]), None)
    if event == "os.chmod":
        return ("chmod", _s(args[0]), None, args[1])
    if event == "os.link":
        return ("link", _s(args[1]), _s(args[0]), None)
    if event == "os.symlink":
        return ("symlink", _s(args[1]), _s(args[0]), None)
    if event == "os.remove":
        return ("remove", _s(args[0]), None, None)
    if event == "os.mkdir":
        return ("mkdir", _s(args[0]), None, None)
    if event == "os.rmdir":
        return ("rmdir", _s(args[0]), None, None)
    if event == "os.truncate":
        return ("truncate", _s(args[0]), None, args[1])
    if event == "os.utime":
        return ("utime", _s(args[0]), None, None)
    if event == "shutil.copyfile":
        return ("copyfile", _s(args[1]), _s(args[0]), None)
    if event == "shutil.move":
        return ("move", _s(args[1]), _s(args[0]), None)
    if event == "shutil.rmtree":
        return ("rmtree", _s(args[0]), None, None)
    return None


class AuditHub:
    _installed = False
    _handlers = []  # callables(kind, path, path2, extra); may raise / sleep / exit
    _tls = threading.local()

    @classmethod
    def install(cls):
        if not cls._installed:
            sys.addaudithook(cls._hook)
            cls._installed = True

    @classmethod
    def _hook(cls, event, args):
        if not cls._handlers or event not in _EVENTS:
            return
        if getattr(cls._tls, "busy", False):
            return
        ev = normalise(event, args)
        if ev is None or ev[1] is None:
            return
        cls._tls.busy = True  # handlers' own fs activity is not re-reported
        try:
            for h in list(cls._handlers):
                h(*ev)
        finally:
            cls._tls.busy = False

    @classmethod
    def add(cls, h):
        cls.install()
        cls._handlers.append(h)
        return h

    @classmethod
    def remove(cls, h):
        try:
            cls._handlers.remove(h)
        except ValueError:
            pass

    @classmethod
    def quiet(cls):
        """Context manager: harness's own fs activity is not reported."""
        return _Quiet(cls)


class _Quiet:
    def __init__(self, hub):
        self.hub = hub

    def __enter__(self):
        self.prev = getattr(self.hub._tls, "busy", False)
        self.hub._tls.busy = True

    def __exit__(self, *a):
        self.hub._tls.busy = self.prev


class Recorder:
    """Records mutating events whose path lies under one of `roots`."""

    def __init__(self, roots):
        self.roots = [os.path.abspath(r).rstrip(os.sep) + os.sep for r in roots]
        self.events = []
        self._lock = threading.Lock()

    def _under(self, p):
        if p is None:
            return False
        if not os.path.isabs(p):
            p = os.path.abspath(p)
        return any(p.startswith(r) or p + os.sep == r for r in self.roots)

    def __call__(self, kind, path, path2, extra):
        if self._under(path) or (kind in ("rename", "move") and self._under(path2)):
            with self._lock:
                self.events.append((kind, path, path2))

    def __enter__(self):
        AuditHub.add(self)
        return self

    def __exit__(self, *a):
        AuditHub.remove(self)


class FaultInjector:
    """Raise OSError(EIO) from the audit hook for events selected by `pred(kind, path, path2)`."""

    def __init__(self, pred, err=errno.EIO):
        self.pred, self.err = pred, err
        self.fired = []
        self._lock = threading.Lock()

    def __call__(self, kind, path, path2, extra):
        if self.pred(kind, path, path2):
            with self._lock:
                self.fired.append((kind, path, path2))
            raise OSError(self.err, "injected fault (verif)", path)

    def __enter__(self):
        AuditHub.add(self)
        return self

    def __exit__(self, *a):
        AuditHub.remove(self)


class Jitter:
    """Sleep a seeded 0..max_ms at fs-operation boundaries (schedule perturbation)."""

    def __init__(self, rng, max_ms=2.0, roots=None, prob=1.0):
        self.rng, self.max_ms, self.prob = rng, max_ms, prob
        self.roots = [os.path.abspath(r) for r in roots] if roots else None
        self.n = 0
        self._lock = threading.Lock()

    def __call__(self, kind, path, path2, extra):
        if self.roots is not None and not any(path.startswith(r) for r in self.roots):
            return
        with self._lock:
            if self.rng.random() > self.prob:
                return
            d = self.rng.random() * self.max_ms / 1000.0
            self.n += 1
        time.sleep(d)

    def __enter__(self):
        AuditHub.add(self)
        return self

    def __exit__(self, *a):
        AuditHub.remove(self)


# ---------------------------------------------------------------------- wrapping
def wrap_everywhere(func, make_wrapper, prefixes=("dvc_data", "dvc_objects")):
    """Replace module-level function `func` by make_wrapper(func) in every loaded module of the
    given packages that holds a reference to it.  -> (wrapper, undo())"""
    wrapper = make_wrapper(func)
    patched = []
    for mname, mod in list(sys.modules.items()):
        if mod is None or not mname.startswith(prefixes):
            continue
        for attr, val in list(vars(mod).items()):
            if val is func:
                setattr(mod, attr, wrapper)
                patched.append((mod, attr))

    def undo():
        for mod, attr in patched:
            setattr(mod, attr, func)

    return wrapper, undo, len(patched)


class MethodPatch:
    """Patch a method on a class (context manager)."""

    def __init__(self, cls, name, make_wrapper):
        self.cls, self.name = cls, name
        self.orig = cls.__dict__.get(name)
        self.had = name in cls.__dict__
        self.inherited = getattr(cls, name)
        self.wrapper = make_wrapper(self.inherited)

    def __enter__(self):
        setattr(self.cls, self.name, self.wrapper)
        return self

    def __exit__(self, *a):
        if self.had:
            setattr(self.cls, self.name, self.orig)
        else:
            delattr(self.cls, self.name)


# ---------------------------------------------------------------------- FaultyFS
def make_faulty_fs_classes():
    """Built lazily so that importing this module never imports dvc_objects."""
    from dvc_objects.fs.base import FileSystem
    from dvc_objects.fs.local import FsspecLocalFileSystem

    class _Backend(FsspecLocalFileSystem):
        protocol = "faulty"
        async_impl = False

        def __init__(self, *a, **kw):
            super().__init__(*a, **kw)

        # fsspec caches instances per class+args; keep each FaultyFS independent
        cachable = False

    class FaultyFS(FileSystem):
        protocol = "faulty"
        PARAM_CHECKSUM = "md5"
        sep = "/"
        flavour = posixpath
        TRAVERSE_PREFIX_LEN = 2

        def __init__(self, page_size=None, threshold=None, jobs=4, **kwargs):
            super().__init__(fs=_Backend(), jobs=jobs, **kwargs)
            if page_size is not None:
                self.LIST_OBJECT_PAGE_SIZE = page_size
            if threshold is not None:
                self.TRAVERSE_THRESHOLD_SIZE = threshold
            self.log = []  # (op, path, ok)
            self.fail_put = None  # callable(path) -> bool
            self.after_put = None  # callable(path)
            self.before_put = None
            self.counters = {}
            self._lock = threading.Lock()

        def _c(self, k):
            with self._lock:
                self.counters[k] = self.counters.get(k, 0) + 1

        def unstrip_protocol(self, path):
            return "faulty://" + path

        def put_file(self, from_file, to_info, callback=None, size=None, **kwargs):
            from fsspec.callbacks import DEFAULT_CALLBACK

            if self.before_put:
                self.before_put(to_info)
            if self.fail_put and self.fail_put(to_info):
                with self._lock:
                    self.log.append(("put", to_info, False))
                raise OSError(errno.EIO, "injected upload failure (verif)", to_info)
            super().put_file(from_file, to_info, callback=callback or DEFAULT_CALLBACK, size=size, **kwargs)
            with self._lock:
                self.log.append(("put", to_info, True))
            if self.after_put:
                self.after_put(to_info)

        def upload_fobj(self, fobj, to_info, **kwargs):
            # atomic like real remotes: temp name then rename
            import shutil

            from dvc_objects.fs.utils import tmp_fname

            self.makedirs(self.parent(to_info))
            tmp = self.join(self.parent(to_info), tmp_fname(""))
            try:
                with open(tmp, "wb") as fdest:
                    shutil.copyfileobj(fobj, fdest)
                os.replace(tmp, to_info)
            except BaseException:
                try:
                    os.unlink(tmp)
                except OSError:
                    pass
                raise

        def get_file(self, from_info, to_info, callback=None, **kwargs):
            from fsspec.callbacks import DEFAULT_CALLBACK

            with self._lock:
                self.log.append(("get", from_info, True))
            return super().get_file(from_info, to_info, callback=callback or DEFAULT_CALLBACK, **kwargs)

        def exists(self, path, callback=None, batch_size=None):
            from fsspec.callbacks import DEFAULT_CALLBACK

            self._c("exists_batch" if not isinstance(path, str) else "exists_one")
            return super().exists(path, callback=callback or DEFAULT_CALLBACK, batch_size=batch_size)

        def find(self, path, prefix=False, batch_size=None, **kwargs):
            self._c("find_prefix" if prefix else "find_all")
            return super().find(path, prefix=prefix, batch_size=batch_size, **kwargs)

        def puts(self, ok=True):
            with self._lock:
                return [p for op, p, k in self.log if op == "put" and k == ok]

    return FaultyFS


_FaultyFS = None


def FaultyFS(**kw):
    global _FaultyFS
    if _FaultyFS is None:
        _FaultyFS = make_faulty_fs_classes()
    return _FaultyFS(**kw)


# ---------------------------------------------------------------------- statement-level yield injection
class LineJitter:
    """sys.monitoring LINE callback on the code objects of chosen classes / modules: threads whose name starts with
    `thread_prefix` sleep for a seeded 0..max_sleep at a fraction `p` of the statements they start inside that code
    (check-then-act windows inside the store code get other threads scheduled into them)."""

    TOOL = 4

    def __init__(self, owners, rng, p=0.08, max_sleep=0.0015, thread_prefix="writer-"):
        import types

        self.rng, self.p, self.max_sleep, self.prefix = rng, p, max_sleep, thread_prefix
        self.codes = []
        seen = set()
        for o in owners:
            for v in vars(o).values():
                f = getattr(v, "__func__", v)
                if isinstance(f, property):
                    f = f.fget
                if isinstance(f, types.FunctionType) and f.__code__ not in seen:
                    if isinstance(o, types.ModuleType) and f.__module__ != o.__name__:
                        continue
                    seen.add(f.__code__)
                    self.codes.append(f.__code__)
        self.yields = 0
        self.lines = 0
        self._lock = threading.Lock()
        self._on = False

    def _cb(self, code, line):
        if not threading.current_thread().name.startswith(self.prefix):
            return None
        with self._lock:
            self.lines += 1
            r = self.rng.random()
            if r >= self.p:
                return None
            self.yields += 1
            d = self.rng.random() * self.max_sleep
        time.sleep(d)
        return None

    def __enter__(self):
        mon = sys.monitoring
        try:
            mon.use_tool_id(self.TOOL, "verif-line-jitter")
        except ValueError:
            return self  # tool id busy: no injection (counted as zero yields)
        self._on = True
        mon.register_callback(self.TOOL, mon.events.LINE, self._cb)
        for c in self.codes:
            mon.set_local_events(self.TOOL, c, mon.events.LINE)
        return self

    def __exit__(self, *a):
        if self._on:
            mon = sys.monitoring
            for c in self.codes:
                mon.set_local_events(self.TOOL, c, 0)
            mon.register_callback(self.TOOL, mon.events.LINE, None)
            mon.free_tool_id(self.TOOL)
            self._on = False
