"""Shared scenario builder + monitors for the transfer properties (C04, C11, C12, C18)."""

import itertools
import os
import threading

from . import env, gen
from .monitors import AuditHub, FaultInjector
from .oracle import DIR_SUFFIX, H, canonical_dir_bytes, closure_problems, list_store, parse_dir_bytes, store_snapshot


class Scenario:
    """A populated source cache, a destination, and a closed request."""

    def __init__(self, ctx, rng, d, dest_kind=None, ntrees=None, allow_missing=False, extra_files=True, wide=0, legacy=False):
        self.ctx, self.rng, self.d = ctx, rng, d
        # legacy: source, staging, request ids (and, through dest_cfg, the destination) all use the text-normalising md5 of old repositories
        self.algo = "md5-dos2unix" if legacy else "md5"
        if legacy:
            self.dest_cfg = {"hash_name": self.algo}
        self.src_root = os.path.join(d, "src")
        self.dest_root = os.path.join(d, "dest")
        self.ws = os.path.join(d, "ws")
        self.dest_kind = dest_kind or rng.choice(["remote", "remote", "local"])
        self.with_obj_names = rng.random() < 0.3
        self.has_empty_tree = False
        pool = [gen.small_content(rng) for _ in range(rng.randrange(1, 5))]
        if rng.random() < 0.4:
            pool.append(gen.mined_00(rng))
        self.src = env.local_odb(self.src_root, **({"hash_name": self.algo} if legacy else {}))
        self.trees = []  # dicts: oid, listing {rel: md5}, hi
        ntrees = ntrees if ntrees is not None else rng.randrange(1, 5)
        self.blobs = {}  # md5 -> bytes
        for t in range(ntrees):
            files, _e = gen.tree(rng, depth=rng.randrange(0, 3), fanout=3, pool_=pool, dup=0.6, odd=0.25, min_files=1)
            if self.trees and rng.random() < 0.25:
                files = dict(files)
                # identical sub-listing under other names: shares every file with an earlier tree
                prev = self.trees[rng.randrange(len(self.trees))]
                for i, (rel, dg) in enumerate(sorted(prev["listing"].items())[:2]):
                    files[(f"shared{i}",)] = self.blobs[dg]
            if wide and t == 0:
                # a directory wider than any batching constant in the code (hundreds of distinct small files)
                files = dict(files)
                tag = rng.getrandbits(32)
                for i in range(wide):
                    files[("wide", f"f{i:04d}")] = b"wide %d %d" % (tag, i)
            p = os.path.join(self.ws, f"t{t}")
            gen.write_tree(p, files)
            _st, _m, obj, r = env.stage_and_transfer(self.src, p)
            if r.failed:
                raise env.HarnessError("population transfer failed")
            listing = {"/".join(k): H(self.algo, v) for k, v in files.items()}
            for k, v in files.items():
                self.blobs[H(self.algo, v)] = v
            self.trees.append({"oid": obj.hash_info.value, "listing": listing, "hi": obj.hash_info})
            raw = canonical_dir_bytes(listing)
            self.blobs[obj.hash_info.value] = raw
        if rng.random() < 0.12 and not wide:
            # a directory that holds nothing: its object is the empty listing
            p = os.path.join(self.ws, "t-empty")
            os.makedirs(p, exist_ok=True)
            _st, _m, obj, r = env.stage_and_transfer(self.src, p)
            if r.failed:
                raise env.HarnessError("population transfer failed")
            self.trees.append({"oid": obj.hash_info.value, "listing": {}, "hi": obj.hash_info})
            self.blobs[obj.hash_info.value] = canonical_dir_bytes({})
            self.has_empty_tree = True
        self.single_files = []
        if extra_files:
            for i in range(rng.randrange(0, 3)):
                p = os.path.join(self.ws, f"single{i}")
                c = rng.choice(pool) if rng.random() < 0.5 else gen.small_content(rng)
                with open(p, "wb") as f:
                    f.write(c)
                _st, _m, obj, _r = env.stage_and_transfer(self.src, p)
                self.single_files.append(obj.hash_info.value)
                self.blobs[obj.hash_info.value] = c
        env.reset_staging()
        self.fs = None
        # a destination on the local filesystem may be opened through a legal non-normalised spelling of its path
        self.dest_spelling = rng.choice(["canonical"] * 5 + ["dot", "double-slash", "trailing-separator"]) if self.dest_kind != "remote" else "canonical"
        self.dest_opened = {"canonical": self.dest_root, "dot": os.path.join(d, ".", "dest"), "double-slash": d + os.sep + os.sep + "dest",
                            "trailing-separator": self.dest_root + os.sep}[self.dest_spelling]
        if self.dest_spelling != "canonical":
            ctx.res.count("destinations_opened_through_non_normalised_path")
        self.dest = self._mk_dest()

    dest_cfg: dict = {}  # configuration every destination of this scenario is created with (set by the caller)

    def _mk_dest(self, **cfg):
        cfg = {**self.dest_cfg, **cfg}
        if self.dest_kind == "remote":
            from .monitors import FaultyFS

            self.fs = FaultyFS(page_size=self.rng.choice([None, 10, 50]), jobs=4)
            return env.remote_odb(self.dest_root, fs=self.fs, **cfg)
        if self.dest_kind == "base":
            return env.base_odb(self.dest_opened, **cfg)
        return env.local_odb(self.dest_opened, **cfg)

    # ---- requests
    def file_oids(self):
        s = set(self.single_files)
        for t in self.trees:
            s |= set(t["listing"].values())
        return s

    def closed_request(self, expanded):
        """-> (obj_ids, shallow flag, all oids the request denotes)"""
        ids = set()
        denoted = set()
        for t in self.trees:
            ids.add(t["hi"])
            denoted.add(t["oid"])
            denoted |= set(t["listing"].values())
            if not expanded:
                if self.with_obj_names:
                    # request ids as dvc's used-object collection hands them over: carrying the name of the path they came from
                    from dvc_data.hashfile.hash_info import HashInfo as _HI

                    ids |= {_HI(self.algo, v, obj_name=f"data/{rel}") for rel, v in t["listing"].items()}
                else:
                    ids |= {env.HI(self.algo, v) for v in t["listing"].values()}
        for o in self.single_files:
            ids.add(env.HI(self.algo, o))
            denoted.add(o)
        return ids, (not expanded), denoted

    def dest_path(self, oid):
        return os.path.join(self.dest_root, oid[:2], oid[2:])

    def src_path(self, oid):
        return os.path.join(self.src_root, oid[:2], oid[2:])


def failure_subsets(rng, oids, max_exhaustive=6, sample=12, must_include=()):
    """Every subset when small, else a sample incl. singletons / all-but-one / shared-only."""
    oids = sorted(oids)
    if len(oids) <= max_exhaustive:
        subs = []
        for r in range(len(oids) + 1):
            subs.extend(frozenset(c) for c in itertools.combinations(oids, r))
        return subs, True
    subs = {frozenset(), frozenset(oids)}
    for o in oids:
        if len(subs) < sample:
            subs.add(frozenset([o]))
            subs.add(frozenset(oids) - {o})
    for m in must_include:
        subs.add(frozenset([m]))
    while len(subs) < sample * 2:
        subs.add(frozenset(o for o in oids if rng.random() < rng.choice([0.2, 0.5, 0.8])))
    return sorted(subs, key=sorted), False


class UploadFaults:
    """Make uploads of the chosen oids fail, for either destination kind; evaluate a monitor
    callback at every observable destination state."""

    def __init__(self, sc, failing, on_state=None):
        self.sc, self.failing = sc, set(failing)
        self.fail_paths = {sc.dest_path(o) for o in self.failing}
        self.on_state = on_state
        self.states = 0
        self.upload_attempts = []  # oids for which an upload was attempted
        self._lock = threading.Lock()
        self._inj = None
        self._mon = None

    def _oid_of(self, path):
        rel = os.path.relpath(path, self.sc.dest_root)
        parts = rel.split(os.sep)
        if len(parts) == 2 and len(parts[0]) == 2 and not parts[1].endswith(".tmp"):
            return parts[0] + parts[1]
        return None

    def __enter__(self):
        sc = self.sc
        if sc.dest_kind == "remote":
            fs = sc.fs

            def fail_put(p):
                o = self._oid_of(p)
                if o:
                    with self._lock:
                        self.upload_attempts.append(o)
                return p in self.fail_paths

            def after_put(p):
                self._observe()

            fs.fail_put, fs.after_put = fail_put, after_put
        else:
            root = os.path.abspath(sc.dest_root) + os.sep

            def pred(kind, p, p2):
                tgt = p2 if kind in ("rename", "move") else p
                tgt = os.path.normpath(tgt) if isinstance(tgt, str) and sc.dest_spelling != "canonical" else tgt
                if tgt is None or not tgt.startswith(root):
                    return False
                if kind in ("open-w", "link", "rename", "move", "copyfile"):
                    o = self._oid_of(tgt)
                    if o and kind in ("rename", "move"):
                        with self._lock:
                            self.upload_attempts.append(o)
                    return tgt in self.fail_paths
                return False

            def mon(kind, p, p2, extra):
                tgt = p2 if kind in ("rename", "move") else p
                tgt = os.path.normpath(tgt) if isinstance(tgt, str) and sc.dest_spelling != "canonical" else tgt
                if tgt is not None and tgt.startswith(root):
                    self._observe()

            self._mon = AuditHub.add(mon)  # state *before* each mutation == state after the previous
            self._inj = FaultInjector(pred)
            AuditHub.add(self._inj)
        return self

    def _observe(self):
        with self._lock:
            self.states += 1
        if self.on_state:
            self.on_state()

    def __exit__(self, *a):
        sc = self.sc
        if sc.dest_kind == "remote":
            sc.fs.fail_put = sc.fs.after_put = None
        else:
            AuditHub.remove(self._mon)
            AuditHub.remove(self._inj)
        self._observe()


def dest_objects(sc):
    return store_snapshot(sc.dest_root)


def closure_of(sc):
    return closure_problems(sc.dest_root)


def wipe(root):
    from .common import _force_rmtree

    _force_rmtree(root)
    os.makedirs(root, exist_ok=True)


def ok_bytes(sc, oid, data):
    """Is `data` the right content for `oid`?"""
    if oid.endswith(DIR_SUFFIX):
        return H("md5", data) + DIR_SUFFIX == oid
    return H(sc.algo, data) == oid


__all__ = [
    "Scenario", "UploadFaults", "failure_subsets", "dest_objects", "closure_of", "wipe", "ok_bytes",
    "list_store", "parse_dir_bytes",
]
