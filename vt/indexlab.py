"""Helpers to build DataIndex objects from generated trees (C02, C09, C17, C18)."""

import os

from . import env, gen
from .oracle import H, canonical_dir_oid


def dirs_of(files, empties=()):
    out = set(empties)
    for k in files:
        for i in range(1, len(k)):
            out.add(k[:i])
    for e in list(empties):
        for i in range(1, len(e)):
            out.add(e[:i])
    return out


def save_tree_to_cache(ctx, odb, files, d, execs=(), name="src"):
    """Put the files of a tree into `odb` through dvc-data's own index save.  -> root dir oid"""
    from dvc_data.index import build, md5, save

    src = os.path.join(d, name)
    gen.write_tree(src, files)
    for k in execs:
        os.chmod(os.path.join(src, *k), 0o755)
    idx = build(src, env.localfs())
    idx = md5(idx)
    save(idx, odb=odb)
    return src


def dir_oid(files, prefix=()):
    listing = {"/".join(k[len(prefix):]): H("md5", v) for k, v in files.items() if k[: len(prefix)] == prefix}
    return canonical_dir_oid(listing), listing


def put_dir_object(odb, files, prefix=(), with_meta=False, execs=()):
    """Write the canonical directory object for files below prefix into odb (through Tree).
    with_meta: the stored listing also carries per-file metadata (size, exec bit), as Tree.digest(with_meta=True) writes it."""
    from dvc_data.hashfile.hash_info import HashInfo
    from dvc_data.hashfile.meta import Meta
    from dvc_data.hashfile.tree import Tree

    t = Tree()
    for k, v in files.items():
        if k[: len(prefix)] == prefix:
            t.add(k[len(prefix):], Meta(size=len(v), isexec=k in execs), HashInfo("md5", H("md5", v)))
    t.digest(with_meta=with_meta)
    odb.add(t.path, t.fs, t.oid, hardlink=False)
    return t.oid


def explicit_index(files, empties=(), execs=(), cache_odb=None, remote_odb=None, with_sizes=True, prefix=()):
    """Target index with one entry per file and an explicit entry per directory."""
    from dvc_data.hashfile.hash_info import HashInfo
    from dvc_data.hashfile.meta import Meta
    from dvc_data.index import DataIndex, DataIndexEntry, ObjectStorage

    idx = DataIndex()
    for dk in sorted(dirs_of(files, empties)):
        idx[(*prefix, *dk)] = DataIndexEntry(key=(*prefix, *dk), meta=Meta(isdir=True), loaded=True)
    for k, v in files.items():
        idx[(*prefix, *k)] = DataIndexEntry(
            key=(*prefix, *k),
            meta=Meta(size=len(v) if with_sizes else None, isexec=k in execs),
            hash_info=HashInfo("md5", H("md5", v)),
        )
    if cache_odb is not None:
        idx.storage_map.add_cache(ObjectStorage(key=(), odb=cache_odb))
    if remote_odb is not None:
        idx.storage_map.add_remote(ObjectStorage(key=(), odb=remote_odb))
    return idx


def lazy_index(files, at=(), cache_odb=None, extra_files=None, index=None):
    """Index holding the directory `at` as a single unloaded entry pointing at its dir object
    (which must already be in cache_odb), plus explicit entries for `extra_files` elsewhere."""
    from dvc_data.hashfile.hash_info import HashInfo
    from dvc_data.hashfile.meta import Meta
    from dvc_data.index import DataIndex, DataIndexEntry, ObjectStorage

    idx = index if index is not None else DataIndex()
    oid, _l = dir_oid(files, at)
    for i in range(1, len(at)):
        idx[at[:i]] = DataIndexEntry(key=at[:i], meta=Meta(isdir=True), loaded=True)
    idx[at] = DataIndexEntry(key=at, meta=Meta(isdir=True), hash_info=HashInfo("md5", oid))
    for k, v in (extra_files or {}).items():
        for i in range(1, len(k)):
            if k[:i] not in idx:
                idx[k[:i]] = DataIndexEntry(key=k[:i], meta=Meta(isdir=True), loaded=True)
        idx[k] = DataIndexEntry(key=k, meta=Meta(size=len(v)), hash_info=HashInfo("md5", H("md5", v)))
    if cache_odb is not None:
        idx.storage_map.add_cache(ObjectStorage(key=(), odb=cache_odb))
    return idx


def workspace_index(ws):
    from dvc_data.index import build, md5

    return md5(build(ws, env.localfs()))
