"""Fan a property check out to worker processes, merge, judge, write evidence.

usage: python -m vt.runner PID [--tier quick|thorough] [--seed N] [--replay FILE] [--shards K]
exit:  0 held (or only listed known findings) / 1 violation / 2 inconclusive
"""

import argparse
import importlib
import json
import os
import subprocess
import sys
import tempfile
import time

from .common import GUARD, REPO_ROOT, REPO_SRC, VERIF_ROOT, write_json
from .plans import PLANS, plan

PY = os.environ.get("VERIF_PYTHON", "/venv/bin/python")


def repo_state():
    try:
        head = subprocess.run(["git", "-C", REPO_ROOT, "rev-parse", "HEAD"], capture_output=True, text=True, timeout=30).stdout.strip()
        dirty = bool(
            subprocess.run(["git", "-C", REPO_ROOT, "status", "--porcelain", "--", "src"], capture_output=True, text=True, timeout=30).stdout.strip()
        )
    except Exception:  # noqa: BLE001
        head, dirty = "unknown", None
    return head, dirty


def load_known():
    p = os.path.join(VERIF_ROOT, "known_findings.json")
    try:
        with open(p, encoding="utf-8") as f:
            return json.load(f).get("findings", [])
    except FileNotFoundError:
        return []


def worker_env(seed, shard):
    env = dict(os.environ)
    env["PYTHONPATH"] = os.pathsep.join([REPO_SRC, VERIF_ROOT])
    env["PYTHONHASHSEED"] = str((seed * 1000003 + shard) % 4294967296)
    env[GUARD] = "1"
    env["PYTHONDONTWRITEBYTECODE"] = "1"
    env["TQDM_DISABLE"] = "1"
    env.pop("PYTHONSTARTUP", None)
    return env


def run_workers(pid, tier, seed, shards, timeout_s, case=None, only_shard=None, hashseed=None, verbose=False):
    tmpd = tempfile.mkdtemp(prefix=f"verif-{pid}-", dir="/dev/shm" if os.path.isdir("/dev/shm") else None)
    todo = [s for s in range(shards) if only_shard is None or s == only_shard]
    running, results, failures = {}, {}, {}
    maxpar = int(os.environ.get("VERIF_JOBS", "16"))
    t_start = time.monotonic()
    while todo or running:
        while todo and len(running) < maxpar:
            s = todo.pop(0)
            out = os.path.join(tmpd, f"{s}.json")
            env = worker_env(seed, s)
            if hashseed is not None:
                env["PYTHONHASHSEED"] = str(hashseed)
            args = [PY, "-m", "vt.worker", pid, tier, str(seed), str(s), str(shards), out]
            if case is not None:
                args.append(str(case))
            errf = open(os.path.join(tmpd, f"{s}.err"), "wb")  # noqa: SIM115
            pr = subprocess.Popen(args, cwd=VERIF_ROOT, env=env, stdout=errf, stderr=None if verbose else errf, start_new_session=True)
            running[s] = (pr, out, time.monotonic(), errf)
        time.sleep(0.05)
        for s, (pr, out, t0, errf) in list(running.items()):
            rc = pr.poll()
            if rc is None:
                if time.monotonic() - t0 > timeout_s:
                    try:
                        os.killpg(pr.pid, 9)
                    except OSError:
                        pr.kill()
                    pr.wait()
                    errf.close()
                    failures[s] = f"watchdog: shard {s} exceeded {timeout_s}s"
                    del running[s]
                continue
            errf.close()
            del running[s]
            try:
                with open(out, encoding="utf-8") as f:
                    results[s] = json.load(f)
            except Exception as e:  # noqa: BLE001
                tail = b""
                try:
                    with open(os.path.join(tmpd, f"{s}.err"), "rb") as f:
                        tail = f.read()[-1500:]
                except OSError:
                    pass
                failures[s] = f"shard {s} exit={rc} no result ({e}); stderr tail: {tail.decode('utf-8', 'replace')}"
    import shutil

    shutil.rmtree(tmpd, ignore_errors=True)
    # scratch left behind by killed workers
    for base in ("/dev/shm", "/var/tmp"):
        try:
            for n in os.listdir(base):
                if n.startswith("dvcverif-") and f"-{pid}-" in n:
                    pth = os.path.join(base, n)
                    try:
                        owner = int(n.split("-")[1])
                        os.kill(owner, 0)
                    except (ValueError, ProcessLookupError):
                        subprocess.run(["chmod", "-R", "u+rwx", pth], capture_output=True)
                        shutil.rmtree(pth, ignore_errors=True)
                    except PermissionError:
                        pass
        except OSError:
            pass
    return results, failures, time.monotonic() - t_start


def main(argv=None):
    ap = argparse.ArgumentParser()
    ap.add_argument("pid")
    ap.add_argument("--tier", default=None)
    ap.add_argument("--seed", type=int, default=None)
    ap.add_argument("--replay", default=None)
    ap.add_argument("--shards", type=int, default=None)
    ap.add_argument("--no-evidence", action="store_true")
    a = ap.parse_args(argv)
    pid = a.pid.upper()
    if pid not in PLANS:
        print(f"unknown property {pid}", file=sys.stderr)
        return 2
    tier = a.tier or os.environ.get("VERIF_TIER") or "quick"
    if tier not in ("quick", "thorough"):
        tier = "quick"
    seed = a.seed if a.seed is not None else int(os.environ.get("VERIF_SEED", "0") or 0)
    p = plan(pid, tier)
    shards = a.shards or p["shards"]
    mod = importlib.import_module(f"vt.props.{pid.lower()}")

    case = only_shard = hashseed = None
    if a.replay:
        with open(a.replay, encoding="utf-8") as f:
            rp = json.load(f)
        rp = rp.get("replay", rp)
        tier, seed, only_shard, case = rp["tier"], rp["seed"], rp["shard"], rp.get("case")
        hashseed = rp.get("hashseed")
        p = plan(pid, tier)
        shards = a.shards or p["shards"]

    head, dirty = repo_state()
    results, failures, wall = run_workers(
        pid, tier, seed, shards, p["timeout_s"], case=case, only_shard=only_shard, hashseed=hashseed, verbose=bool(a.replay)
    )

    # ------------------------------------------------------------ merge
    evaluations = sum(r["evaluations"] for r in results.values())
    distinct = set()
    counters, samples, violations, notes = {}, [], [], []
    vcount = 0
    inconclusive = []
    for s in sorted(results):
        r = results[s]
        distinct.update(r["distinct"])
        for k, v in r["counters"].items():
            if k.startswith("max/"):
                counters[k] = max(counters.get(k, 0), v)
            else:
                counters[k] = counters.get(k, 0) + v
        if len(samples) < 8:
            samples.extend(r["samples"][: max(1, 8 // max(1, len(results)))])
        violations.extend(r["violations"])
        vcount += r["violation_count"]
        if r["inconclusive"]:
            inconclusive.append(f"shard {s}: {r['inconclusive']}")
        notes.extend(r["notes"][:3])
    for s, why in failures.items():
        inconclusive.append(why)

    # a handful of cases the harness itself could not set up are tolerated (and reported); more is inconclusive
    he = counters.pop("first_harness_error", None)
    _ = he
    n_he = counters.get("harness_errors", 0)
    if n_he > max(3, 0.005 * max(evaluations, 1)):
        first = next((n for n in notes if n.startswith("first harness error")), "")
        inconclusive.append(f"{n_he} cases hit a harness error ({first[:200]})")
    required = getattr(mod, "REQUIRED_COUNTERS", [])
    if not a.replay:
        for c in required:
            if counters.get(c, 0) <= 0:
                inconclusive.append(f"deciding monitor never reached: counter '{c}' is 0")
        if evaluations < p["min_eval"]:
            inconclusive.append(f"only {evaluations} evaluations (< {p['min_eval']})")
        if len(distinct) < 2:
            inconclusive.append(f"only {len(distinct)} distinct non-trivial cases")

    known = {k["key"]: k for k in load_known() if k.get("property") == pid and k.get("status") == "known"}
    seen_known, new_viol = {}, []
    for v in violations:
        if v["key"] in known:
            seen_known.setdefault(v["key"], []).append(v)
        else:
            new_viol.append(v)
    # violations beyond the kept sample are attributed through the per-key counters
    unlisted_total = 0
    known_total = 0
    for k, n in counters.items():
        if k.startswith("violations/"):
            key = f"{pid}/" + k[len("violations/") :]
            if key in known:
                known_total += n
            else:
                unlisted_total += n

    rep_dir = os.path.join(VERIF_ROOT, "replays")
    lines = []
    if new_viol and a.replay:
        for v in new_viol[:10]:
            lines.append(f"VIOLATION property={pid} replay={a.replay}")
            lines.append(f"  key={v['key']} what={v['what']}")
    elif new_viol:
        os.makedirs(rep_dir, exist_ok=True)
        shown = {}
        for i, v in enumerate(new_viol):
            if shown.get(v["key"], 0) >= 3:
                continue
            shown[v["key"]] = shown.get(v["key"], 0) + 1
            path = os.path.join(rep_dir, f"{pid}-{tier}-{seed}-{i}.json")
            write_json(path, v)
            lines.append(f"VIOLATION property={pid} replay={path}")
            lines.append(f"  key={v['key']} what={v['what']}")
    for key, k in sorted(known.items()):
        lines.append(f"KNOWN-FINDING: property={pid} {k['what']} [key={key} observed_this_run={len(seen_known.get(key, []))}]")

    if unlisted_total:
        verdict, rc = "violated", 1
    elif inconclusive:
        verdict, rc = "inconclusive", 2
    else:
        verdict, rc = "held", 0

    if not a.replay and not a.no_evidence:
        ev = {
            "property_id": pid,
            "tier": tier,
            "seed": seed,
            "level": p["level"],
            "coverage": {
                "evaluations": evaluations,
                "distinct_nontrivial": len(distinct),
                "rule": getattr(mod, "RULE", ""),
                "samples": samples[:8] or [{"note": "no sample recorded"}],
                "exhaustive": bool(getattr(mod, "EXHAUSTIVE", {}).get(tier, False)) and not counters.get("stopped_by_time_budget"),
                "observed": {k: v for k, v in sorted(counters.items()) if not k.startswith("violations/")},
                "shards": shards,
                "shards_completed": len(results),
                "verdict": verdict,
                "inconclusive_reasons": inconclusive[:10],
                "known_findings_observed": {k: len(v) for k, v in seen_known.items()},
                "repo_head": head,
                "repo_src_dirty": dirty,
                "monitors": getattr(mod, "MONITORS", ""),
            },
            "assumptions": list(getattr(mod, "ASSUMPTIONS", [])),
            "wall_s": round(wall, 2),
            "violations": unlisted_total,
        }
        os.makedirs(os.path.join(VERIF_ROOT, "evidence"), exist_ok=True)
        write_json(os.path.join(VERIF_ROOT, "evidence", f"{pid}.json"), ev)

    for ln in lines:
        print(ln)
    if verdict == "held":
        print(f"HELD property={pid} tier={tier} seed={seed} evaluations={evaluations} distinct={len(distinct)} wall={wall:.1f}s known_findings={known_total}")
    elif verdict == "inconclusive":
        print(f"INCONCLUSIVE property={pid} reason={'; '.join(inconclusive[:4])}")
    else:
        print(f"VIOLATED property={pid} tier={tier} seed={seed} violations={unlisted_total} evaluations={evaluations}")
        for k, n in sorted(counters.items()):
            if k.startswith("violations/") and f"{pid}/" + k[len("violations/") :] not in known:
                print(f"  {n:6d} x {k[len('violations/'):]}")
    if a.replay or os.environ.get("VERIF_VERBOSE"):
        for n in notes[:10]:
            print("note:", n, file=sys.stderr)
        for v in violations[:5]:
            print(json.dumps(v, indent=1)[:6000], file=sys.stderr)
    return rc


if __name__ == "__main__":
    sys.exit(main())
