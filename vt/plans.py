"""Per-property run plans: level, shard counts, budgets.  Numbers are cases, not seconds,
except *_s which are wall-clock caps whose expiry is never a verdict (only 'inconclusive')."""

# n = number of cases (striped over the shards); budget_s = per-shard soft time cap after which the
# shard stops generating new cases; timeout_s = hard watchdog around the worker process.
DEFAULT = {
    "quick": {"shards": 16, "budget_s": 45, "timeout_s": 240},
    "thorough": {"shards": 16, "budget_s": 480, "timeout_s": 1500},
}

PLANS = {
    "C01": {"level": "exploration", "quick": {"n": 1600}, "thorough": {"n": 24000}, "min_eval": 30},
    "C02": {"level": "exploration", "quick": {"n": 2000}, "thorough": {"n": 30000}, "min_eval": 30},
    "C03": {"level": "exploration", "quick": {"n": 3000}, "thorough": {"n": 80000}, "min_eval": 50},
    "C04": {"level": "fault_enumeration", "quick": {"n": 160}, "thorough": {"n": 2400}, "min_eval": 30},
    "C05": {"level": "exploration", "quick": {"n": 4000}, "thorough": {"n": 60000}, "min_eval": 30},
    "C06": {"level": "exploration", "quick": {"n": 6000}, "thorough": {"n": 100000}, "min_eval": 50},
    "C07": {"level": "exploration", "quick": {"n": 6000}, "thorough": {"n": 90000}, "min_eval": 50},
    "C08": {"level": "exploration", "quick": {"n": 16000}, "thorough": {"n": 300000}, "min_eval": 200},
    "C09": {"level": "exploration", "quick": {"n": 3200}, "thorough": {"n": 50000}, "min_eval": 30},
    "C10": {"level": "exploration", "quick": {"n": 3000}, "thorough": {"n": 50000}, "min_eval": 30},
    "C11": {"level": "fault_enumeration", "quick": {"n": 800}, "thorough": {"n": 12000}, "min_eval": 30},
    "C12": {"level": "exploration", "quick": {"n": 4000}, "thorough": {"n": 60000}, "min_eval": 30},
    "C13": {"level": "exploration", "quick": {"n": 640}, "thorough": {"n": 9000}, "min_eval": 30},
    "C14": {"level": "exploration", "quick": {"n": 8000}, "thorough": {"n": 150000}, "min_eval": 100},
    "C15": {"level": "fault_enumeration", "quick": {"n": 16}, "thorough": {"n": 64}, "min_eval": 30,
            "thorough_over": {"budget_s": 1100, "timeout_s": 2400}},
    "C16": {"level": "exploration", "quick": {"n": 288}, "thorough": {"n": 2000}, "min_eval": 10},
    "C17": {"level": "exploration", "quick": {"n": 6000}, "thorough": {"n": 90000}, "min_eval": 50},
    "C18": {"level": "fault_enumeration", "quick": {"n": 800}, "thorough": {"n": 12000}, "min_eval": 20},
    "C19": {"level": "exploration", "quick": {"n": 16}, "thorough": {"n": 16}, "min_eval": 500},
    "C20": {"level": "exploration", "quick": {"n": 16000}, "thorough": {"n": 300000}, "min_eval": 100},
}


def plan(pid, tier):
    p = dict(DEFAULT[tier])
    pp = PLANS[pid]
    p.update(pp.get(tier, {}))
    p.update(pp.get(tier + "_over", {}))
    p["level"] = pp["level"]
    p["min_eval"] = pp.get("min_eval", 1)
    return p
