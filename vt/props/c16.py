"""C16 - concurrent writers cannot corrupt a shared store or state database."""

import json
import os
import random
import subprocess
import sys
import threading
import time
import traceback

from .. import env, gen
from ..common import VERIF_ROOT, h64
from ..crashlab import child_env
from ..monitors import AuditHub
from ..oracle import DIR_SUFFIX, H, audit_store, canonical_dir_oid, file_bytes, list_store, parse_dir_bytes

RULE = (
    "run = N in {2,4,8} writers, each staging its own generated directory (70-90 % of the contents drawn from a shared pool, some "
    "writers with an identical whole directory) and (threads: a third of the writers stage a second directory before transferring the first; one writer of an identical directory may lose a source file right after its status query and fail - the others must not suffer) transferring it into ONE LocalHashFileDB path while sharing ONE hash-state "
    "database; variants: threads in one process (shared State object, shared or per-thread store objects) and separate "
    "processes (own State on the same SQLite files, released together); scheduling perturbed by a seeded 0-2 ms sleep at every "
    "filesystem-operation boundary inside the store (audit hook) and, in half of the thread runs, by seeded sleeps between statements of the store / transfer / state code (sys.monitoring LINE events), thorough additionally with a 10 us switch interval.  Afterwards "
    "every writer must have succeeded, every requested object must be present with the right bytes, every writer's directory "
    "object must list exactly what that writer staged, and every state row for a store object must be truthful.  non-trivial = "
    ">= 1 object touched by >= 2 writers; distinct = interleaving signature (order of writers over events on contended objects)"
)
ASSUMPTIONS = [
    "schedules are sampled, not enumerated: absence of a failure is not absence of a race (there is no race detector for CPython code)",
    "perturbation points are the points where writers can actually interleave: GIL releases at filesystem calls / process switches",
    "run as root (an unprivileged writer hitting another writer's already write-protected object is a different regime, not exercised here)",
]
MONITORS = ("per-writer manifests computed by the harness vs the shared store after the run; per-event log (monotonic ns, writer, kind, object) "
            "from the audit hook giving contended objects and interleaving signatures; State.get answers vs hashlib")
REQUIRED_COUNTERS = ["runs", "thread_runs", "process_runs", "contended_objects", "writers_checked", "objects_audited", "state_rows_checked",
                     "jitter_sleeps", "identical_directory_runs", "second_directories_checked", "runs_with_a_failing_identical_writer", "line_jitter_runs", "line_jitter_yields", "verifying_writer_runs", "process_runs_with_relative_upload_staging"]


def make_workspaces(rng, d, n):
    pool = [gen.small_content(rng) for _ in range(rng.randrange(4, 10))] + [b"", gen.content(rng, big=0.2)]
    trees = []
    ident = rng.random() < 0.6
    for i in range(n):
        if ident and i >= 1 and rng.random() < 0.7:
            files = dict(trees[rng.randrange(len(trees))])
        else:
            files = {}
            for _ in range(rng.randrange(3, 14)):
                depth = rng.randrange(1, 4)
                k = tuple(gen.name(rng, odd=0.2) for _ in range(depth))
                if any(k[:j] in files for j in range(1, len(k))) or any(f[: len(k)] == k for f in files):
                    continue
                files[k] = rng.choice(pool) if rng.random() < rng.choice([0.7, 0.9]) else gen.small_content(rng) + bytes([i])
            if not files:
                files[("only",)] = rng.choice(pool)
        trees.append(files)
        gen.write_tree(os.path.join(d, f"ws{i}"), files)
    # some writers stage a second, different directory before transferring the first (stage-all-then-transfer batching)
    seconds = {}
    for i in range(n):
        if rng.random() < 0.35:
            files2 = {(f"second-{i}", f"f{j}"): (rng.choice(pool) if rng.random() < 0.6 else gen.small_content(rng) + bytes([i, j])) for j in range(rng.randrange(1, 5))}
            seconds[i] = files2
            gen.write_tree(os.path.join(d, f"ws{i}b"), files2)
    return trees, ident, seconds


def signature(events):
    """events: (t_ns, writer, kind, relpath) -> (contended objects, interleaving signature)"""
    per = {}
    for t, w, kind, rel in sorted(events):
        parts = rel.split(os.sep)
        if len(parts) == 2 and len(parts[0]) == 2 and not parts[1].endswith(".tmp"):
            per.setdefault(parts[0] + parts[1], []).append((t, w, kind))
    contended = {o: ev for o, ev in per.items() if len({w for _t, w, _k in ev}) > 1}
    sig = tuple((o, tuple(w for _t, w, _k in ev)) for o, ev in sorted(contended.items()))
    return contended, h64(sig)


def run_shard(ctx):
    res = ctx.res
    fs = env.localfs()
    if ctx.tier == "thorough":
        sys.setswitchinterval(1e-5)

    def audit(d, trees, results, case, cfg, faulty=None, seconds=None):
        croot = os.path.join(d, "cache")
        for i, r in enumerate(results):
            res.count("writers_checked")
            if r is None or r.get("error"):
                res.violation(f"writer-raised/{cfg['mode']}", f"writer {i} raised: {(r or {}).get('error')}", case=case,
                              detail={**cfg, "traceback": (r or {}).get("traceback")})
            elif r["failed"] and i != faulty:
                res.violation(f"writer-reported-failed-objects/{cfg['mode']}", f"writer {i}: {len(r['failed'])} objects failed", case=case, detail=cfg)
        probs, objs, _nt = audit_store(croot, "md5")
        res.count("objects_audited", len(objs))
        for kind, oid, info in probs[:3]:
            res.violation(f"store-object-{kind}/{cfg['mode']}", f"{oid}: {info}", case=case, detail=cfg)
        todo = [(i, files, "oid") for i, files in enumerate(trees)] + [(i, files, "oid2") for i, files in sorted((seconds or {}).items())]
        for i, files, okey in todo:
            listing = {"/".join(k): H("md5", v) for k, v in files.items()}
            want = canonical_dir_oid(listing)
            r = results[i]
            if okey == "oid2":
                res.count("second_directories_checked")
                r = {"oid": (r or {}).get("oid2")}
            if r and r.get("oid") and r["oid"] != want:
                res.violation("writer-directory-id-differs-from-manifest", f"writer {i} staged {r['oid']}, its data is {want}", case=case, detail=cfg)
            if want not in objs:
                res.violation(f"writer-directory-object-missing/{cfg['mode']}", f"writer {i}'s directory object {want} is not in the store", case=case, detail=cfg)
            else:
                got, _f = parse_dir_bytes(file_bytes(objs[want]))
                if got != listing:
                    res.violation("writer-directory-object-lists-other-content", f"writer {i}", case=case, detail=cfg)
            for k, v in files.items():
                o = H("md5", v)
                if o not in objs:
                    res.violation(f"requested-object-missing/{cfg['mode']}", f"writer {i}: {o} ({'/'.join(k)}) absent from the store", case=case, detail=cfg)
                    break
                if file_bytes(objs[o]) != v:
                    res.violation(f"requested-object-incomplete/{cfg['mode']}", f"writer {i}: {o} has wrong/truncated bytes", case=case, detail=cfg)
                    break
        # the state db must be readable and truthful about the store objects
        try:
            st = env.mk_state(d, os.path.join(d, "tmp"))
            for oid, p in list(objs.items())[:60]:
                _m, hi = st.get(p, fs)
                res.count("state_rows_checked")
                if hi is not None:
                    base = oid[: -len(DIR_SUFFIX)] if oid.endswith(DIR_SUFFIX) else oid
                    if hi.value.split(".")[0] != H("md5", file_bytes(p)) or hi.value.split(".")[0] != base:
                        res.violation("state-row-wrong-hash", f"state answers {hi.value} for object {oid}", case=case, detail=cfg)
            st.close()
        except Exception as e:  # noqa: BLE001
            res.violation("state-db-unreadable", f"{type(e).__name__}: {e}", case=case, detail=cfg)

    for case, rng in ctx.cases(ctx.plan["n"]):

        def threads(case=case, rng=rng):
            from dvc_data.hashfile.build import build
            from dvc_data.hashfile.transfer import transfer

            d = ctx.fresh("t")
            n = rng.choice([2, 4, 4, 8])
            trees, ident, seconds = make_workspaces(rng, d, n)
            croot = os.path.join(d, "cache")
            state = env.mk_state(d, os.path.join(d, "tmp"))
            shared_odb = rng.random() < 0.5
            odbs = [env.local_odb(croot, state=state)] * n if shared_odb else [env.local_odb(croot, state=state) for _ in range(n)]
            results = [None] * n
            events = []
            elock = threading.Lock()
            jr = random.Random(rng.getrandbits(64))
            cprefix = os.path.abspath(croot) + os.sep
            sleeps = [0]

            def handler(kind, path, path2, extra):
                tgt = path2 if kind in ("rename", "move") else path
                if tgt is None or not tgt.startswith(cprefix):
                    return
                name = threading.current_thread().name
                if not name.startswith("writer-"):
                    return
                with elock:
                    events.append((time.monotonic_ns(), int(name[7:]), kind, os.path.relpath(tgt, cprefix)))
                    dly = jr.random() * 0.002
                    sleeps[0] += 1
                time.sleep(dly)

            barrier = threading.Barrier(n)

            # one writer of an identical directory may lose a source file right after its status query (its own transfer then fails,
            # legitimately); the other writers' results must not suffer
            faulty = None
            pairs = [j for j in range(1, n) if any(trees[j] == trees[i_] for i_ in range(j))]
            if pairs and rng.random() < 0.5:
                faulty = rng.choice(pairs)
                res.count("runs_with_a_failing_identical_writer")
            jobs_of = [rng.choice([1, 2]) for _ in range(n)]
            vfy = rng.random() < 0.2  # all writers verify what they have added
            if vfy:
                res.count("verifying_writer_runs")
            hold = rng.choice([0.02, 0.1, 0.25])

            reporting = {i_ for i_ in range(len(odbs)) if rng.random() < 0.25}
            if reporting:
                res.count("writers_with_a_reporting_status_hook", len(reporting))

            def writer(i):
                try:
                    barrier.wait(timeout=30)
                    staging, _m, obj = build(odbs[i], os.path.join(d, f"ws{i}"), fs, "md5")
                    staging2 = obj2 = None
                    if i in seconds:
                        staging2, _m2, obj2 = build(odbs[i], os.path.join(d, f"ws{i}b"), fs, "md5")
                    kw = {}
                    if i == faulty:
                        def lose(_status, i=i):
                            k0 = sorted(trees[i])[0]
                            try:
                                os.unlink(os.path.join(d, f"ws{i}", *k0))
                            except FileNotFoundError:
                                pass
                            time.sleep(hold)  # the others get on with it meanwhile

                        kw["validate_status"] = lose
                    elif i in reporting:
                        # a status hook that only reports (and returns a value, as a logging helper might): it changes nothing
                        kw["validate_status"] = lambda status_: bool(status_.missing)
                    r = transfer(staging, odbs[i], {obj.hash_info}, shallow=False, jobs=jobs_of[i], verify=vfy, **kw)
                    failed = sorted(h.value for h in r.failed)
                    oid2 = None
                    if staging2 is not None:
                        r2 = transfer(staging2, odbs[i], {obj2.hash_info}, shallow=False, jobs=jobs_of[i], verify=vfy)
                        failed += sorted(h.value for h in r2.failed)
                        oid2 = obj2.hash_info.value
                    results[i] = {"oid": obj.hash_info.value, "oid2": oid2, "failed": failed, "error": None}
                except BaseException as e:  # noqa: BLE001
                    results[i] = {"error": f"{type(e).__name__}: {e}", "traceback": traceback.format_exc()[-2500:], "failed": None, "oid": None}

            AuditHub.add(handler)
            ths = [threading.Thread(target=writer, args=(i,), name=f"writer-{i}") for i in range(n)]
            # in half of the runs writers are additionally descheduled between statements inside the store / transfer / state code
            lj = None
            if rng.random() < 0.5:
                import dvc_objects.db as _odbmod

                import dvc_data.hashfile.db as _dbmod
                import dvc_data.hashfile.db.local as _localmod
                import dvc_data.hashfile.state as _statemod
                import dvc_data.hashfile.transfer as _trmod

                from ..monitors import LineJitter

                lj = LineJitter([_localmod.LocalHashFileDB, _dbmod.HashFileDB, _odbmod.ObjectDB, _statemod.State, _trmod],
                                random.Random(rng.getrandbits(64)), p=rng.choice([0.05, 0.15, 0.3]), max_sleep=rng.choice([0.0005, 0.002, 0.005]))
                lj.__enter__()
            try:
                for t in ths:
                    t.start()
                hung = False
                for t in ths:
                    t.join(timeout=120)
                    hung = hung or t.is_alive()
            finally:
                if lj is not None:
                    lj.__exit__()
                    res.count("line_jitter_runs")
                    res.count("line_jitter_statements_seen", lj.lines)
                    res.count("line_jitter_yields", lj.yields)
            AuditHub.remove(handler)
            if hung:
                res.inconclusive = "writer thread did not finish within 120 s"
                return
            res.evaluated()
            res.count("runs")
            res.count("thread_runs")
            res.count("jitter_sleeps", sleeps[0])
            if ident:
                res.count("identical_directory_runs")
            contended, sig = signature(events)
            res.count("contended_objects", len(contended))
            if contended:
                res.nontrivial("threads", sig)
            cfg = {"mode": "threads/verify" if vfy else "threads", "writers": n, "shared_store_object": shared_odb, "events": len(events), "contended_objects": len(contended),
                   "identical_dirs": ident}
            res.sample(cfg)
            state.close()
            cfg["failing_identical_writer"] = faulty
            cfg["writers_staging_two_directories"] = sorted(seconds)
            audit(d, trees, results, case, cfg, faulty=faulty, seconds=seconds)
            env.reset_staging()
            ctx.drop(d)

        def procs(case=case, rng=rng):
            d = ctx.fresh("p")
            n = rng.choice([2, 4, 4, 8])
            trees, ident, seconds = make_workspaces(rng, d, n)
            os.makedirs(os.path.join(d, "cache"))
            os.makedirs(os.path.join(d, "tmp"))
            start_at = time.monotonic() + 1.2
            ps = []
            plj = [rng.choice([0.05, 0.15, 0.3]), rng.choice([0.0005, 0.002, 0.005])] if rng.random() < 0.5 else None
            upload_rel = rng.random() < 0.3
            if upload_rel:
                res.count("process_runs_with_relative_upload_staging")
                for i in range(n):
                    gen.write_tree(os.path.join(d, f"w{i}", "data"), trees[i])
            for i in range(n):
                spec = {"root": d, "writer": i, "seed": rng.getrandbits(32), "jitter_ms": 2.0, "start_at": start_at, "line_jitter": plj,
                        "upload_rel": os.path.join(d, f"w{i}") if upload_rel else None,
                        "ws": os.path.join(d, f"ws{i}"), "out": os.path.join(d, f"out{i}.json")}
                sp = os.path.join(d, f"spec{i}.json")
                with open(sp, "w", encoding="utf-8") as f:
                    json.dump(spec, f)
                ps.append(subprocess.Popen([sys.executable, "-m", "vt.c16child", sp], cwd=VERIF_ROOT, env=child_env(rng.randrange(1000)),
                                           stdout=subprocess.DEVNULL, stderr=subprocess.DEVNULL))
            results, events = [], []
            for i, p in enumerate(ps):
                try:
                    p.wait(timeout=180)
                except subprocess.TimeoutExpired:
                    p.kill()
                    res.inconclusive = "writer process did not finish within 180 s"
                    return
                try:
                    with open(os.path.join(d, f"out{i}.json"), encoding="utf-8") as f:
                        r = json.load(f)
                    events.extend(tuple(e) for e in r.pop("events"))
                    res.count("line_jitter_yields", r.pop("line_jitter_yields", 0))
                    results.append(r)
                except FileNotFoundError:
                    results.append({"error": f"process exited {p.returncode} without a result", "failed": None, "oid": None})
            res.evaluated()
            res.count("runs")
            res.count("process_runs")
            res.count("jitter_sleeps", len(events))
            if ident:
                res.count("identical_directory_runs")
            contended, sig = signature(events)
            res.count("contended_objects", len(contended))
            if contended:
                res.nontrivial("processes", sig)
            cfg = {"mode": "processes/upload-staging" if upload_rel else "processes", "writers": n, "events": len(events), "contended_objects": len(contended), "identical_dirs": ident}
            res.sample(cfg)
            audit(d, trees, results, case, cfg)
            ctx.drop(d)

        if case % 8 == 7:
            ctx.guard(case, procs)
        else:
            ctx.guard(case, threads)
