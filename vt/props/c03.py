"""C03 - a directory's identifier is a canonical, deterministic function of its contents."""

import itertools
import json
import os

from .. import env, gen
from ..oracle import H, canonical_dir_bytes, canonical_dir_oid

RULE = (
    "A (in memory): entry sets of 1-7 (relative path, digest) pairs with nested and non-ASCII paths; ALL insertion permutations "
    "for sets of <= 5 entries (sampled above), random metadata attached to every entry; bytes compared with a hand-written "
    "canonical encoder and entered into a run-wide bytes->entry-set map (injectivity); from_list(as_list) identity; get_obj for "
    "every prefix.  B (on disk): generated trees staged with checksum_jobs in {1,2,8}, >= 2 files above the large-file threshold "
    "in one directory (unordered parallel hashing path), _get_hashes with thresholds {0,1,2^21}, a LocalFileSystem whose walk "
    "order is shuffled, the directory named with a trailing separator or through //, /./, /../ spellings, a filesystem whose reads fail once mid-file with a transient errno (staging must raise or give the canonical id, and the state must not remember a wrong one), state cold / warm / warm after touching files, the first staging materialised only after all other builds; every sub-directory compared with a direct build.  "
    "non-trivial = >= 2 entries; distinct = (entry set) resp. (tree, configuration)"
)
ASSUMPTIONS = [
    "permutation space exhaustive only for sets of <= 5 entries",
    "the parallel hashing path is reached by construction (two files larger than the threshold in one directory); its use is inferred from the inputs, not from an internal hook",
]
MONITORS = "oid / bytes equality across permutations and configurations; independent canonical encoder; collision map"
REQUIRED_COUNTERS = ["cwd_relative_builds", "trees_with_dot_leading_directory_names", "digests_after_replacing_an_entry", "digests_asked_to_keep_metadata", "other_hash_name_listings_through_the_store", "legacy_algorithm_builds_with_large_text_files", "digested_object_reread_after_other_digests", "late_materialisations", "flaky_read_builds", "inode_only_swaps", "get_obj_after_add_histories", "state_warmed_under_other_algorithm", "permutations_checked", "sets_exhaustively_permuted", "disk_builds", "parallel_path_builds", "shuffled_walk_builds",
                     "warm_state_builds", "prefix_objects_checked", "roundtrip_checks", "get_hashes_threshold_checks"]


def run_shard(ctx):
    from dvc_objects.fs.local import LocalFileSystem

    from dvc_data.hashfile.build import _get_hashes, build
    from dvc_data.hashfile.hash_info import HashInfo
    from dvc_data.hashfile.meta import Meta
    from dvc_data.hashfile.tree import Tree

    res = ctx.res
    seen_bytes = {}
    dummy = env.local_odb(ctx.fresh("o"))

    class ShuffledFS(LocalFileSystem):
        rng = None

        def walk(self, path, **kwargs):
            for root, dirs, files in super().walk(path, **kwargs):
                if isinstance(dirs, list):
                    self.rng.shuffle(dirs)
                if isinstance(files, list):
                    self.rng.shuffle(files)
                yield root, dirs, files

    class _FlakyFile:
        """file object whose k-th read() fails once with a transient errno"""

        def __init__(self, f, fail_at, err):
            self._f, self._fail_at, self._err, self._calls, self.fired = f, fail_at, err, 0, False

        def read(self, n=-1):
            self._calls += 1
            if self._calls == self._fail_at and not self.fired:
                self.fired = True
                FlakyReadFS.fired += 1
                raise OSError(self._err, "injected transient read error")
            return self._f.read(n)

        def __getattr__(self, name):
            return getattr(self._f, name)

        def __enter__(self):
            return self

        def __exit__(self, *a):
            self._f.close()

    class FlakyReadFS(LocalFileSystem):
        rng = None
        fired = 0

        def open(self, path, mode="rb", **kwargs):
            f = super().open(path, mode, **kwargs)
            if "r" in mode and self.rng.random() < 0.7:
                import errno as _e

                return _FlakyFile(f, self.rng.choice([1, 2, 2, 3]), self.rng.choice([_e.EIO, _e.ESTALE, _e.ETIMEDOUT, _e.EAGAIN]))
            return f

    def rmeta(rng):
        return Meta(size=rng.choice([None, 0, 5, 10**6]), isexec=rng.random() < 0.3, nfiles=rng.choice([None, 3]),
                    inode=rng.randrange(10**6), mtime=rng.random() * 1e9, etag=rng.choice([None, "x"]))

    n = ctx.plan["n"]
    for case, rng in ctx.cases(n):

        def mem(case=case, rng=rng):
            k = rng.choice([1, 2, 3, 3, 4, 4, 5, 5, 6, 7])
            entries = {}
            while len(entries) < k:
                key = tuple(gen.name(rng, odd=0.4) for _ in range(rng.randrange(1, 4)))
                # a path cannot be both a file and a directory
                if any(key[:i] in entries for i in range(1, len(key))) or any(e[: len(key)] == key for e in entries):
                    continue
                entries[key] = "%032x" % rng.getrandbits(128) if rng.random() < 0.7 else "0" * 31 + str(rng.randrange(3))
            items = sorted(entries.items())
            listing = {"/".join(kk): v for kk, v in items}
            ref_bytes = canonical_dir_bytes(listing)
            ref_oid = canonical_dir_oid(listing)
            if k <= 5:
                perms = list(itertools.permutations(items))
                res.count("sets_exhaustively_permuted")
            else:
                perms = [rng.sample(items, len(items)) for _ in range(30)] + [items, items[::-1]]
            if k >= 2:
                res.nontrivial("mem", items)
            res.sample({"entries": listing, "permutations": len(perms)})
            first = None
            for perm in perms:
                res.evaluated()
                res.count("permutations_checked")
                t = Tree()
                for key, dg in perm:
                    t.add(key, rmeta(rng), HashInfo("md5", dg))
                t.digest()
                b = t.as_bytes()
                if first is None:
                    first = (t.oid, b)
                if (t.oid, b) != first:
                    res.violation("insertion-order-dependent", "two insertion orders of one entry set give different identifiers/bytes",
                                  case=case, detail={"entries": listing})
                    break
                if b != ref_bytes or t.oid != ref_oid or t.hash_info.value != ref_oid:
                    res.violation("not-canonical-encoding", "bytes/oid differ from the independent canonical encoding",
                                  case=case, detail={"entries": listing, "got": b.decode("utf-8", "replace")[:300], "ref": ref_bytes.decode()[:300]})
                    break
            # the object a digested tree points at still holds that tree's listing after other trees were digested
            t0 = Tree()
            for key, dg in items:
                t0.add(key, rmeta(rng), HashInfo("md5", dg))
            t0.digest()
            other = Tree()
            other.add(("unrelated-%d" % case,), rmeta(rng), HashInfo("md5", "%032x" % rng.getrandbits(128)))
            other.digest()
            res.count("digested_object_reread_after_other_digests")
            if t0.fs.cat_file(t0.path) != ref_bytes:
                res.violation("digested-object-overwritten-by-later-digest", "the serialised object of a digested tree no longer holds its listing after another tree was digested",
                              case=case, detail={"entries": listing})
            # injectivity across the whole run
            fs_items = frozenset(items)
            prev = seen_bytes.setdefault(first[1], fs_items)
            if prev != fs_items:
                res.violation("two-sets-same-bytes", "two different entry sets serialise to the same bytes", case=case,
                              detail={"a": sorted(prev), "b": items})
            # round trip
            res.count("roundtrip_checks")
            t = Tree()
            for key, dg in items:
                t.add(key, rmeta(rng), HashInfo("md5", dg))
            wm_ = rng.random() < 0.5
            t.digest(with_meta=wm_)
            # the identifier is that of the entries; asking for the stored form to carry the per-file metadata as well does not change it
            if wm_:
                res.count("digests_asked_to_keep_metadata")
                if t.oid != ref_oid:
                    res.violation("digest-with-meta-changes-oid", f"digest(with_meta=True) named the listing {t.oid}, its entries make it {ref_oid}", case=case, detail={"entries": listing})
                stored_ = Tree.from_list(json.loads(t.fs.cat_file(t.path)), hash_name="md5")
                stored_.digest()
                if stored_.oid != ref_oid:
                    res.violation("list-roundtrip-changes-oid/stored-with-metadata", "the form stored by digest(with_meta=True) re-parses to another identifier", case=case, detail={"entries": listing})
            for with_meta in (False, True):
                back = Tree.from_list(t.as_list(with_meta=with_meta), hash_name="md5" if with_meta else None)
                got = {kk: hi.value for kk, _m, hi in back}
                if got != dict(items):
                    res.violation("list-roundtrip-not-identity", f"from_list(as_list(with_meta={with_meta})) changed the entries", case=case,
                                  detail={"entries": listing, "got": {"/".join(a): b for a, b in got.items()}})
                back.digest()
                if back.oid != ref_oid:
                    res.violation("list-roundtrip-changes-oid", "re-parsed listing has another identifier", case=case, detail={"entries": listing})
            # listings whose entries carry opaque, case-sensitive digests under another name (cloud etags / checksums): through a
            # real store and back, and injective
            if rng.random() < 0.15:
                import base64 as _b64

                hname = rng.choice(["etag", "checksum"])
                vals = {}
                for key, _dg in items:
                    raw_ = rng.randbytes(9)
                    vals[key] = rng.choice([_b64.b64encode(raw_).decode(), "0x8D" + raw_.hex().upper(), raw_.hex()])
                te = Tree()
                for key, _dg in items:
                    te.add(key, rmeta(rng), HashInfo(hname, vals[key]))
                te.digest()
                dummy.add(te.path, te.fs, te.oid)
                res.count("other_hash_name_listings_through_the_store")
                back_e = Tree.load(dummy, te.hash_info)
                got_e = {kk: (hi.name, hi.value) for kk, _m, hi in back_e}
                if got_e != {key: (hname, vals[key]) for key, _dg in items}:
                    res.violation("list-roundtrip-not-identity/other-hash-name-through-store", f"a listing of {hname} entries stored and re-loaded does not give the same entries",
                                  case=case, detail={"name": hname, "got": str(sorted(got_e.items()))[:300]})
                back_e.digest()
                if back_e.oid != te.oid:
                    res.violation("list-roundtrip-changes-oid/other-hash-name-through-store", "re-loaded listing has another identifier", case=case, detail={"name": hname})
                # the same paths with the digests in another letter case are another entry set: other bytes
                swapped = {key: (v.swapcase() if v.swapcase() != v else v + "x") for key, v in vals.items()}
                ts = Tree()
                for key, _dg in items:
                    ts.add(key, rmeta(rng), HashInfo(hname, swapped[key]))
                ts.digest()
                if ts.as_bytes() == te.as_bytes() or ts.oid == te.oid:
                    res.violation("two-sets-same-bytes/digests-differing-in-case", "two entry sets whose digests differ only in letter case serialise to the same bytes", case=case,
                                  detail={"name": hname})
            # every prefix
            prefixes = {key[:i] for key in entries for i in range(1, len(key))}
            for pre in sorted(prefixes):
                res.count("prefix_objects_checked")
                sub = {"/".join(kk[len(pre):]): v for kk, v in items if kk[: len(pre)] == pre}
                obj = t.get_obj(dummy, pre)
                if obj is None or obj.oid != canonical_dir_oid(sub):
                    res.violation("prefix-object-differs", f"object for sub-directory {'/'.join(pre)} != object built from that sub-directory",
                                  case=case, detail={"entries": listing, "prefix": pre})
            # a history on one Tree: query, add deeper entries, query again
            items2 = dict(items)
            if prefixes and rng.random() < 0.5:
                res.count("get_obj_after_add_histories")
                for pre in rng.sample(sorted(prefixes), min(2, len(prefixes))):
                    nk = (*pre, gen.name(rng, odd=0.3) + "-late", gen.name(rng, odd=0.3))
                    if any(nk[:i] in items2 for i in range(1, len(nk))) or any(e[: len(nk)] == nk for e in items2):
                        continue
                    items2[nk] = "%032x" % rng.getrandbits(128)
                    t.add(nk, rmeta(rng), HashInfo("md5", items2[nk]))
                if rng.random() < 0.5 and items:
                    k0 = items[0][0]
                    items2[k0] = "%032x" % rng.getrandbits(128)
                    t.add(k0, rmeta(rng), HashInfo("md5", items2[k0]))
                for pre in sorted({k[:i] for k in items2 for i in range(1, len(k))}):
                    sub = {"/".join(kk[len(pre):]): v for kk, v in items2.items() if kk[: len(pre)] == pre}
                    obj = t.get_obj(dummy, pre)
                    if obj is None or obj.oid != canonical_dir_oid(sub):
                        res.violation("prefix-object-stale-after-add", f"get_obj({'/'.join(pre)}) after further add() calls != object of the current sub-directory",
                                      case=case, detail={"prefix": pre})
                        break
                t.digest()
                if t.oid != canonical_dir_oid({"/".join(kk): v for kk, v in items2.items()}):
                    res.violation("digest-stale-after-add", "digest() after further add() calls is not the canonical id of the current entries", case=case)
                elif items2:
                    # ... and once more after an entry was merely replaced (as many entries as before)
                    kr = rng.choice(sorted(items2))
                    items2[kr] = "%032x" % rng.getrandbits(128)
                    t.add(kr, rmeta(rng), HashInfo("md5", items2[kr]))
                    t.digest()
                    res.count("digests_after_replacing_an_entry")
                    if t.oid != canonical_dir_oid({"/".join(kk): v for kk, v in items2.items()}):
                        res.violation("digest-stale-after-add/entry-replaced", "digest() after an entry was replaced (same number of entries) is not the canonical id of the current entries", case=case)
                    elif H("md5", t.fs.cat_file(t.path)) + ".dir" != t.oid:
                        res.violation("digest-stale-after-add/stored-form-differs", "the bytes digest() left to be stored do not hash to the identifier it reports", case=case)
                    else:
                        # other trees are digested before this one gets stored: what it left to be stored is still its own listing
                        for j_ in range(rng.randrange(4, 7)):
                            o_ = Tree()
                            o_.add((f"other{j_}",), rmeta(rng), HashInfo("md5", "%032x" % rng.getrandbits(128)))
                            o_.digest()
                        res.count("stored_forms_read_after_other_digests")
                        if H("md5", t.fs.cat_file(t.path)) + ".dir" != t.oid:
                            res.violation("stored-form-overwritten-by-later-digests", "after other trees were digested, the bytes this tree left to be stored no longer hash to its identifier", case=case)
            for key, dg in sorted(items2.items())[:2]:
                obj = t.get_obj(dummy, key)
                if obj is None or obj.oid != dg:
                    res.violation("prefix-object-differs/file", "get_obj of a file key does not give that file's object", case=case, detail={"entries": listing})

        def disk(case=case, rng=rng):
            d = ctx.fresh("b")
            big = rng.random() < 0.35
            files, _e = gen.tree(rng, depth=rng.randrange(0, 3), fanout=3, odd=0.3, dup=0.4, min_files=2)
            files[("crlf.txt",)] = b"line one\r\nline two\r\n" * rng.randrange(1, 40)
            files[("twin-a",)], files[("twin-b",)] = b"AAAA twin", b"BBBB twin"
            if rng.random() < 0.6:
                # dot-leading names at the root and below (".cfg/a" and "cfg/a" are different paths)
                files[(rng.choice([".cfg", "..cfg", ".a.b"]), "a")] = b"dotted " + rng.randbytes(6)
                files[("plain-sub", ".hidden", ".b")] = b"dotted too"
                res.count("trees_with_dot_leading_directory_names")
            if big:
                base = rng.choice(sorted({k[:-1] for k in files}))
                for i in range(rng.choice([2, 3])):
                    files[(*base, f"big{i}")] = rng.randbytes(2**20 + 1 + rng.randrange(5000))
                # large CRLF text files with a CR LF pair straddling the 1 MiB block boundary
                for i in range(2):
                    files[(*base, f"bigtext{i}")] = b"t" * (2**20 - 1) + b"\r\n" + (b"line %d\r\n" % i) * rng.randrange(1000, 60000)
                res.count("parallel_path_builds")
            p = os.path.join(d, "data")
            gen.write_tree(p, files)
            listing = {"/".join(k): H("md5", v) for k, v in files.items()}
            ref = canonical_dir_oid(listing)
            res.nontrivial("disk", sorted(listing.items()), big)
            res.sample({"disk_tree": {k: v for k, v in list(listing.items())[:6]}, "files": len(files), "big_files": big})
            state = env.mk_state(d, os.path.join(d, "tmp"))
            odb = env.local_odb(os.path.join(d, "cache"), state=state)
            odb_nostate = env.local_odb(os.path.join(d, "cache2"))
            sfs = ShuffledFS()
            sfs.rng = rng
            runs = []
            for jobs in (1, 2, 8):
                runs.append(("jobs=%d" % jobs, odb_nostate, env.localfs(), jobs))
            runs.append(("shuffled-walk", odb_nostate, sfs, rng.choice([1, 4])))
            if rng.random() < 0.5:
                # the same state first serves a store of the legacy text-normalising algorithm (rows under another algorithm name)
                legacy = env.local_odb(os.path.join(d, "legacy"), state=state, hash_name="md5-dos2unix")
                build(legacy, p, env.localfs(), "md5-dos2unix", dry_run=True)
                res.count("state_warmed_under_other_algorithm")
            if big:
                # the legacy algorithm normalises per 1 MiB block: its directory id must not depend on which hashing path a file took
                ref_legacy = canonical_dir_oid({"/".join(k): H("md5-dos2unix", v) for k, v in files.items()})
                for jobs_ in (1, 4):
                    lodb = env.local_odb(os.path.join(d, f"legacy-nostate-{jobs_}"), hash_name="md5-dos2unix")
                    _sl, _ml, lobj = build(lodb, p, env.localfs(), "md5-dos2unix", dry_run=True, checksum_jobs=jobs_)
                    res.count("legacy_algorithm_builds_with_large_text_files")
                    if lobj.hash_info.value != ref_legacy:
                        res.violation("staging-config-dependent/legacy-algorithm-large-files", f"md5-dos2unix build (jobs={jobs_}) gives {lobj.hash_info.value}, per-file reference {ref_legacy}",
                                      case=case, detail={"jobs": jobs_})
            runs.append(("trailing-separator", odb_nostate, env.localfs(), rng.choice([1, 4])))
            runs.append(("cwd-relative", odb_nostate, env.localfs(), rng.choice([1, 4])))
            if big:
                ffs = FlakyReadFS()
                ffs.rng = rng
                runs.append(("flaky-read", odb, ffs, rng.choice([1, 2])))
            runs.append(("state-cold", odb, env.localfs(), 2))
            runs.append(("state-warm", odb, sfs, 2))
            objs = []
            for label, o, fs, jobs in runs:
                res.evaluated()
                res.count("disk_builds")
                if label == "shuffled-walk" or fs is sfs:
                    res.count("shuffled_walk_builds")
                if label == "state-warm":
                    res.count("warm_state_builds")
                if label == "flaky-read":
                    # a transient read error in the middle of a file: staging either fails loudly or gives the canonical id
                    try:
                        _st, meta, obj = build(o, p, fs, "md5", checksum_jobs=jobs)
                        res.count("flaky_read_builds_returned")
                    except OSError:
                        res.count("flaky_read_builds_raised")
                        continue
                    finally:
                        res.count("flaky_read_builds")
                else:
                    sp_ = p
                    if label == "trailing-separator":
                        # a legal non-canonical spelling of the same directory
                        sp_ = rng.choice([p + os.sep, p + os.sep, d + "//data", d + "/./data", p + "/../data"])
                    if label == "cwd-relative":
                        # the directory named relative to the working directory: "." from inside it, or its name from its parent
                        res.count("cwd_relative_builds")
                        sp_ = rng.choice([".", ".", "data", "./data"])
                        os.chdir(p if sp_ == "." else d)
                    try:
                        _st, meta, obj = build(o, sp_, fs, "md5", checksum_jobs=jobs)
                    finally:
                        if label == "cwd-relative":
                            os.chdir("/")
                if label == "jobs=1":
                    first_staging = _st
                objs.append(obj)
                if obj.hash_info.value != ref:
                    res.violation(f"staging-config-dependent/{label.split('=')[0]}", f"staging with {label} gives {obj.hash_info.value}, canonical is {ref}",
                                  case=case, detail={"listing": listing, "label": label})
                if meta.nfiles != len(files) or meta.size != sum(len(v) for v in files.values()):
                    res.violation("tree-meta-miscount", f"nfiles/size {meta.nfiles}/{meta.size} != {len(files)}/{sum(len(v) for v in files.values())}",
                                  case=case, detail={"label": label})
            # the first staging is materialised only now, after all the other builds: the stored object must be its own listing
            from dvc_data.hashfile.transfer import transfer as _transfer

            late = env.local_odb(os.path.join(d, "late"))
            build(odb_nostate, os.path.join(p, "crlf.txt"), env.localfs(), "md5")
            sub0 = sorted({k[:1] for k in files if len(k) > 1})
            if sub0:
                build(odb_nostate, os.path.join(p, *sub0[0]), env.localfs(), "md5")
            _transfer(first_staging, late, {objs[0].hash_info}, shallow=True)
            res.count("late_materialisations")
            with open(late.oid_to_path(ref), "rb") as f:
                if f.read() != canonical_dir_bytes(listing):
                    res.violation("late-materialised-object-differs", "a staged directory transferred after other directories were staged is stored with other bytes than its listing",
                                  case=case, detail={"listing": listing})
            # warm after touching some files (content unchanged, token changed)
            touched = [k for k in files if rng.random() < 0.4]
            for k in touched:
                fp = os.path.join(p, *k)
                st = os.stat(fp)
                os.utime(fp, ns=(st.st_atime_ns, st.st_mtime_ns + 1_000_000))
            res.evaluated()
            res.count("disk_builds")
            res.count("warm_state_builds")
            _st, _m, obj = build(odb, p, env.localfs(), "md5", checksum_jobs=rng.choice([1, 8]))
            if obj.hash_info.value != ref:
                res.violation("staging-config-dependent/state-warm-touched", "warm state after touching files gives another identifier", case=case,
                              detail={"listing": listing, "touched": touched})
            # warm state after two equal-sized files changed places by rename with identical mtimes (inode-only change)
            same = {}
            for k, v in files.items():
                same.setdefault(len(v), []).append(k)
            pair = next((ks for ks in same.values() if len(ks) >= 2 and files[ks[0]] != files[ks[1]]), None)
            if pair:
                res.count("inode_only_swaps")
                a, b = pair[0], pair[1]
                pa, pb = os.path.join(p, *a), os.path.join(p, *b)
                st = os.stat(pa)
                os.utime(pb, ns=(st.st_atime_ns, st.st_mtime_ns))
                build(odb, p, env.localfs(), "md5", dry_run=True)  # warm rows for the state as it is now
                os.replace(pa, pa + ".swap")
                os.replace(pb, pa)
                os.replace(pa + ".swap", pb)
                files[a], files[b] = files[b], files[a]
                listing2 = {"/".join(k): H("md5", v) for k, v in files.items()}
                res.evaluated()
                res.count("disk_builds")
                _st, _m, obj2 = build(odb, p, env.localfs(), "md5")
                if obj2.hash_info.value != canonical_dir_oid(listing2):
                    res.violation("staging-config-dependent/state-warm-after-inode-only-swap",
                                  "after two equal-sized files were swapped by rename (mtimes preserved) the warm-state build does not give the id of the current contents",
                                  case=case, detail={"swapped": ["/".join(a), "/".join(b)]})
                listing = listing2
                ref = canonical_dir_oid(listing2)
                objs[0] = obj2
            # every sub-directory prefix vs a direct build of that sub-directory
            tree = objs[0]
            for pre in sorted({k[:i] for k in files for i in range(1, len(k))}):
                res.count("prefix_objects_checked")
                sub = {"/".join(k[len(pre):]): H("md5", v) for k, v in files.items() if k[: len(pre)] == pre}
                got = tree.get_obj(odb_nostate, pre)
                _s2, _m2, direct = build(odb_nostate, os.path.join(p, *pre), env.localfs(), "md5")
                if got is None or not (got.oid == direct.hash_info.value == canonical_dir_oid(sub)):
                    res.violation("prefix-object-differs/disk", f"sub-directory {'/'.join(pre)}: get_obj, direct build and canonical oid disagree",
                                  case=case, detail={"prefix": pre, "got": getattr(got, "oid", None), "direct": direct.hash_info.value, "ref": canonical_dir_oid(sub)})
            # _get_hashes with thresholds routing files to either path
            fs = env.localfs()
            from dvc_data.fsutils import _localfs_info

            for thr in (0, 1, 2**21):
                res.count("get_hashes_threshold_checks")
                paths = [os.path.join(p, *k) for k in files]
                rng.shuffle(paths)
                infos = {pp: _localfs_info(pp) for pp in paths}
                out = _get_hashes(paths, fs, "md5", infos, state=None, jobs=rng.choice([None, 1, 3]), large_file_threshold=thr)
                for k, v in files.items():
                    pp = os.path.join(p, *k)
                    if pp not in out or out[pp][1].value != H("md5", v):
                        res.violation("hash-result-mispaired", f"threshold={thr}: hash reported for {'/'.join(k)} is not the hash of its content",
                                      case=case, detail={"threshold": thr})
                        break
            state.close()
            env.reset_staging()
            ctx.drop(d)

        if case % 10 == 0:
            ctx.guard(case, disk)
        else:
            ctx.guard(case, mem)
