"""C05 - checkout never destroys user data that is not recoverable from the cache."""

import os

from .. import colab, env, gen
from ..monitors import Recorder
from ..oracle import H, file_bytes, stat_token, walk_files

RULE = (
    "(a) case = cache holding two generated trees (and single files); workspace = checkout of one of them with link type "
    "copy/hardlink/symlink, then user edits: new files with uncached or cached content, edits to cached<->uncached content, "
    "deletions, extra directories, file<->directory swaps holding uncached data, the user's own data kept under two hard-linked / symlinked names, a stray .dvcignore next to the data; then checkout of the same or the other object "
    "with force=False, prompt absent or declining, relink on/off, store class local/base, state on/off.  Accounting: every byte "
    "string present in the workspace before the call and missing/different afterwards (normal return or exception) must be "
    "intact in the cache; an uncached file in the way must produce PromptError.  (b) histories of save_link / modify / "
    "replace / remove / get_unused_links(used) / remove_links over files and directories against a shadow model.  "
    "non-trivial (a) = the workspace held at least one uncached file; (b) = a recorded path was modified or listed as used; "
    "distinct = hash of the case"
)
ASSUMPTIONS = [
    "edits to linked files are made by replace-by-rename (an in-place write through a hard/sym-link is the user corrupting the cache)",
    "a cache object that is corrupt and write-protected counts as 'in cache' for a local store (C07's stated exclusion); the workload creates none",
    "mtime is guaranteed to change on a modification (nudged by 1us if the kernel gave an identical stat token; counted)",
]
MONITORS = ("lost-bytes accounting: {path: bytes} of the workspace before vs after against the set of intact cache objects; audit-hook trail of "
            "removals as witness; shadow model of the link table for clean-up")
REQUIRED_COUNTERS = ["checkouts_from_a_read_only_store_handle", "prompt_calls_answered_yes", "crlf_variants_of_tracked_text", "legacy_scans_through_the_same_state", "file_where_a_tree_goes_cases", "output_removed_cases", "symlinked_subdirectory_cases", "own_data_under_two_linked_names", "workspaces_with_stray_ignore_file", "second_attempts_after_refusal", "single_file_targets", "inode_only_replacements", "workspaces_with_dangling_symlink", "cleanups_after_checkout", "large_file_directories", "dir_links_with_duplicate_basenames", "damaged_cache_objects", "symlinked_link_records", "checkouts", "uncached_files_in_workspace", "prompt_errors", "declining_prompt_calls", "normal_returns", "kind_swap_cases",
                     "link_histories", "unused_link_queries", "remove_links_calls", "relink_cases", "store/local", "store/base",
                     "link/copy", "link/hardlink", "link/symlink"]


def run_shard(ctx):
    from dvc_data.hashfile import load
    from dvc_data.hashfile.build import IgnoreInCollectedDirError
    from dvc_data.hashfile.checkout import CheckoutError, LinkError, PromptError, checkout

    res = ctx.res
    fs = env.localfs()
    n = ctx.plan["n"]

    for case, rng in ctx.cases(n):

        def co(case=case, rng=rng):
            d = ctx.fresh("u")
            cls = rng.choice(["local", "local", "base"])
            link = rng.choice(["copy", "hardlink", "symlink"])
            use_state = rng.random() < 0.5
            relink = rng.random() < 0.35
            res.count(f"store/{cls}")
            res.count(f"link/{link}")
            if relink:
                res.count("relink_cases")
            croot = os.path.join(d, "cache")
            state = env.mk_state(d, os.path.join(d, "tmp")) if use_state else None
            odb = env.odb_of_class(cls, croot, state=state, type=[link])
            pool = [gen.small_content(rng) for _ in range(3)] + [b"", b"first line\nsecond line\n", b"a\nb\n"]
            A, _e = gen.tree(rng, depth=rng.randrange(0, 3), fanout=3, pool_=pool, dup=0.5, odd=0.25, min_files=1, empty_dirs=False)
            B, _e2, _ops = gen.mutate_tree(rng, A, (), pool, kind_swaps=rng.random() < 0.4)
            bigcase = rng.random() < 0.05
            if bigcase:
                # several files above the large-file threshold in one directory: one tracked, the others the user's own
                bigs = gen.big_files(rng)
                A[("bigdir", "tracked.bin")] = bigs[0]
                B[("bigdir", "tracked.bin")] = bigs[0] + b"v2"
                res.count("large_file_directories")
            aobj = colab.populate(odb, d, A, "asrc")
            bobj = colab.populate(odb, d, B, "bsrc")
            ws = os.path.join(d, "ws", "out")
            os.makedirs(os.path.dirname(ws))
            start = rng.choice(["A", "B", "empty"])
            model = {}
            if start != "empty":
                model = dict(A if start == "A" else B)
                checkout(ws, fs, load(odb, (aobj if start == "A" else bobj).hash_info), odb, force=True, state=state)
            else:
                os.makedirs(ws)
            if start != "empty" and walk_files(ws) != model:
                # the start state is only a means here (C02/C10 judge that checkout): put the workspace into the modelled state by hand
                gen.write_tree(ws, {k_: v_ for k_, v_ in model.items() if walk_files(ws).get(k_) != v_})
                res.count("start_states_completed_by_hand")
            if bigcase and start != "empty" and os.path.isdir(os.path.join(ws, "bigdir")):
                for j, c in enumerate(bigs[1:]):
                    with open(os.path.join(ws, "bigdir", f"user{j}.bin"), "wb") as f:
                        f.write(c)
                    model[("bigdir", f"user{j}.bin")] = c
            def mtimes_of(root_):
                out_ = {}
                for dp_, _dn_, fn_ in os.walk(root_):
                    for f_ in fn_:
                        try:
                            out_[os.path.join(dp_, f_)] = os.stat(os.path.join(dp_, f_)).st_mtime_ns
                        except OSError:
                            out_[os.path.join(dp_, f_)] = None
                return out_

            recorded_view = mtimes_of(ws) if os.path.isdir(ws) else {}
            swaps = rng.random() < 0.4
            model, ops = colab.user_edit(rng, ws, model, pool, allow_kind_swaps=swaps, in_place_ok=(link == "copy"))
            if any(o in ("file->dir", "dir->file") for o in ops):
                res.count("kind_swap_cases")
            # a tracked file replaced by another file of the same size whose mtime was preserved (cp -p / rsync -t): only the inode differs
            inode_only = []
            if use_state and start != "empty" and rng.random() < 0.3:
                for k, v in sorted(model.items()):
                    p_ = os.path.join(ws, *k)
                    if v and os.path.isfile(p_) and not os.path.islink(p_) and os.lstat(p_).st_nlink == 1 and rng.random() < 0.5:
                        st_ = os.stat(p_)
                        newv = bytes((b + 3) % 256 for b in v)
                        tmp_ = p_ + ".verif-cp"
                        with open(tmp_, "wb") as f:
                            f.write(newv)
                        os.utime(tmp_, ns=(st_.st_atime_ns, st_.st_mtime_ns))
                        os.replace(tmp_, p_)
                        model[k] = newv
                        inode_only.append(k)
                if inode_only:
                    res.count("inode_only_replacements")
            # the user's own (never cached) data kept under two names inside the workspace: hard-linked (ln, cp -l, de-duplication tools) or
            # one name a symbolic link to the other
            if start != "empty" and rng.random() < 0.12:
                cands = [k for k in sorted(model) if os.path.isfile(os.path.join(ws, *k)) and not os.path.islink(os.path.join(ws, *k))]
                both = [k for k in cands if k in A and k in B]
                pick = both if len(both) >= 2 else cands
                if pick:
                    ks = rng.sample(pick, min(2, len(pick)))
                    if len(ks) == 1:
                        ks.append((*ks[0][:-1], ks[0][-1] + ".userlink"))
                    own = gen.small_content(rng) + b"user-own-linked"
                    first, second = os.path.join(ws, *ks[0]), os.path.join(ws, *ks[1])
                    gen.replace_by_rename(first, own)
                    if os.path.lexists(second):
                        os.unlink(second)
                    style = rng.choice(["hardlink-pair", "hardlink-pair", "symlink-to-own"])
                    if style == "hardlink-pair":
                        os.link(first, second)
                    else:
                        os.symlink(first, second)
                    model[ks[0]] = model[ks[1]] = own
                    ops = [*ops, f"own-data-under-two-names/{style}"]
                    res.count("own_data_under_two_linked_names")
            # the user turned a tracked LF text file into its CRLF form (uncached bytes), and a legacy (text-normalising) operation has
            # looked at the workspace through the same hash state: its rows must not make the CRLF copy pass for the cached LF object
            if use_state and start != "empty" and rng.random() < 0.15:
                from dvc_data.hashfile.build import build as _build

                for k_ in sorted(model):
                    v_ = model[k_]
                    p_ = os.path.join(ws, *k_)
                    if v_ and b"\n" in v_ and b"\r" not in v_ and b"\0" not in v_ and os.path.isfile(p_) and not os.path.islink(p_) and all(32 <= c_ < 127 or c_ in (9, 10) for c_ in v_[:512]):
                        crlf_ = v_.replace(b"\n", b"\r\n")
                        gen.replace_by_rename(p_, crlf_)
                        model[k_] = crlf_
                        ops = [*ops, "lf->crlf"]
                        res.count("crlf_variants_of_tracked_text")
                        break
                legacy_ = env.odb_of_class("local", os.path.join(d, "legacy-cache"), state=state, hash_name="md5-dos2unix")
                _build(legacy_, ws, fs, "md5-dos2unix", dry_run=True)
                res.count("legacy_scans_through_the_same_state")
            # a stray .dvcignore inside the target directory (next to an edited file when there is one)
            stray = None
            if start != "empty" and rng.random() < 0.1:
                levels = sorted({k[:-1] for k in model if os.path.isdir(os.path.join(ws, *k[:-1]))})
                if levels:
                    lv = rng.choice(levels)
                    stray = os.path.join(ws, *lv, ".dvcignore")
                    with open(stray, "wb") as f:
                        f.write(b"*.tmp\n")
                    model[(*lv, ".dvcignore")] = b"*.tmp\n"
                    res.count("workspaces_with_stray_ignore_file")
            # a dangling symbolic link lying around in the workspace
            dangling = False
            if start != "empty" and rng.random() < 0.08:
                os.symlink("/nonexistent/verif-target", os.path.join(ws, "dangling-link"))
                dangling = True
                res.count("workspaces_with_dangling_symlink")
            which = rng.choice(["A", "B"])
            target = load(odb, (aobj if which == "A" else bobj).hash_info)
            tfiles = A if which == "A" else B
            prompt_mode = rng.choice(["none", "decline", "decline", "agree-to-the-first-only"])
            calls = []
            agreed = []

            def prompt(msg):
                calls.append(msg)
                if prompt_mode == "agree-to-the-first-only" and len(calls) == 1:
                    # an affirmative answer - for this path, not for the ones asked about later
                    agreed.append(msg)
                    res.count("prompt_calls_answered_yes")
                    return True
                res.count("declining_prompt_calls")
                return False

            def agreed_to(k, follow=True):
                # the question names the path to be removed: the file itself or a directory above it (a second name of the same
                # data - a symlink to it - goes with the data)
                if any(f"'{os.path.join(ws, *k[:i])}'" in m for m in agreed for i in range(len(k) + 1)):
                    return True
                pth = os.path.join(ws, *k)
                if follow and agreed and os.path.islink(pth):
                    # (one level: the name it points at may by now be a link into the cache itself)
                    rel = os.path.relpath(os.path.normpath(os.path.join(os.path.dirname(pth), os.readlink(pth))), ws)
                    return not (rel == os.pardir or rel.startswith(os.pardir + os.sep)) and agreed_to(tuple(rel.split(os.sep)), follow=False)
                return False

            ro_handle = rng.random() < 0.15
            if link == "copy" and rng.random() < (0.8 if ro_handle else 0.3):
                # a damaged, unprotected cache object (e.g. left by an interrupted add) at the oid of a workspace file
                from ..oracle import list_store

                cobjs, _t, _s = list_store(croot)
                held = {H("md5", v) for v in walk_files(ws).values() if v is not None}
                for o in sorted(held & set(cobjs)):
                    if rng.random() < 0.6:
                        gen.replace_by_rename(cobjs[o], file_bytes(cobjs[o])[:-1] + b"\x00damaged")
                        os.chmod(cobjs[o], 0o644)
                        res.count("damaged_cache_objects")
            if ro_handle:
                # the checkout reads from a handle on the cache that was opened read-only (it only ever reads from it)
                odb = env.odb_of_class(cls, croot, state=state, type=[link], read_only=True)
                res.count("checkouts_from_a_read_only_store_handle")
            pre_view = mtimes_of(ws) if os.path.isdir(ws) else {}
            before = walk_files(ws)
            intact = colab.cache_intact_digests(croot)
            uncached = {k for k, v in before.items() if v is not None and H("md5", v) not in intact}
            res.count("uncached_files_in_workspace", len(uncached))
            # uncached files that stand in the way of the target
            blockers = {k for k in uncached if tfiles.get(k) != before[k]}
            cfg = {"store": cls, "link": link, "state": use_state, "relink": relink, "start": start, "target": which, "ops": ops,
                   "prompt": prompt_mode, "workspace": sorted("/".join(k) for k in before), "uncached": sorted("/".join(k) for k in uncached),
                   "target_paths": sorted("/".join(k) for k in tfiles)}
            res.evaluated()
            res.count("checkouts")
            if uncached:
                res.nontrivial(sorted(before.items()), sorted(tfiles.items()), cls, link, relink, prompt_mode)
            res.sample(cfg)
            outcome = "returned"
            perr = None
            with Recorder([ws]) as rec:
                try:
                    checkout(ws, fs, target, odb, force=False, relink=relink, state=state,
                             prompt=prompt if prompt_mode != "none" else None)
                    res.count("normal_returns")
                except PromptError as e:
                    outcome, perr = "PromptError", e
                    res.count("prompt_errors")
                except (CheckoutError, LinkError) as e:
                    outcome = type(e).__name__
                    cfg["exception"] = repr(getattr(e, "paths", e))[:300]
                except IgnoreInCollectedDirError as e:
                    if stray is None:
                        raise
                    outcome = type(e).__name__  # loud refusal
                    res.count("refused_because_of_stray_ignore_file")
                except OSError as e:
                    if not dangling:
                        raise
                    outcome = type(e).__name__  # loud; the accounting below still applies
            after = walk_files(ws)
            lost = []
            for k, v in before.items():
                if v is None:
                    continue
                if after.get(k) != v and H("md5", v) not in intact:
                    if agreed_to(k):
                        res.count("uncached_files_given_up_by_an_affirmative_answer")
                        continue
                    lost.append(k)
            if lost:
                removals = [e for e in rec.events if e[0] in ("remove", "rmtree", "rename", "open-w", "rmdir")][:6]
                k = lost[0]
                how = "removed" if k not in after else "overwritten"
                kind = "kind-swap" if any(o in ("file->dir", "dir->file") for o in ops) else "plain"
                if dangling:
                    kind = "workspace-holds-dangling-symlink"
                res.violation(f"uncached-user-file-{how}/{kind}/{outcome}" if not dangling else "uncached-user-file-destroyed/workspace-holds-dangling-symlink",
                              f"{'/'.join(k)} held bytes that are not in the cache and was {how} by a non-forced checkout ({outcome})",
                              case=case, detail={**cfg, "fs_events": removals})
            if {k for k in blockers if not agreed_to(k)} and outcome == "returned" and not lost and not dangling:
                res.violation("uncached-file-in-the-way-not-refused", f"checkout returned normally although {sorted('/'.join(k) for k in blockers)[:2]} hold uncached data in the way",
                              case=case, detail=cfg)
            if perr is not None:
                # the error names a path that really holds unrecoverable data (file, or a directory with such files)
                p = os.path.relpath(perr.path, ws)
                key = () if p == "." else tuple(p.split(os.sep))
                named = [k for k in uncached if k[: len(key)] == key]
                if not named:
                    res.violation("prompt-error-names-recoverable-path", f"PromptError for {p}, which holds no uncached data", case=case, detail=cfg)
            if not lost and outcome != "returned" and not dangling and rng.random() < 0.5:
                # the refused / failed checkout is simply tried again (a stray ignore file removed first): still nothing unrecoverable may go
                if stray is not None and os.path.exists(stray):
                    os.unlink(stray)
                mid0 = walk_files(ws)
                res.count("second_attempts_after_refusal")
                out2 = "returned"
                try:
                    checkout(ws, fs, target, odb, force=False, relink=relink, state=state, prompt=prompt if prompt_mode != "none" else None)
                except (PromptError, CheckoutError, LinkError) as e:
                    out2 = type(e).__name__
                except OSError as e:
                    # (loud) the removal the user agreed to at the first attempt may have left a second name of that data dangling
                    if not (dangling or agreed):
                        raise
                    out2 = type(e).__name__
                aft2 = walk_files(ws)
                if out2 == "returned":
                    outcome = "returned-on-second-attempt"  # a successful checkout may record the workspace as its own
                for k, v in mid0.items():
                    if v is not None and aft2.get(k) != v and H("md5", v) not in intact and not agreed_to(k):
                        res.violation(f"uncached-user-file-destroyed-by-second-attempt/after-{outcome}",
                                      f"{'/'.join(k)} holds bytes that are not in the cache; the checkout was refused ({outcome}) and a second non-forced attempt ({out2}) destroyed it",
                                      case=case, detail=cfg)
                        lost = [k]
                        break
            # "modified since recorded" in the sense the clean-up can see: the set of files or one of their mtimes changed
            # (judged on the view the clean-up will actually see: a stray file removed for the second attempt no longer counts)
            edited = start != "empty" and os.path.isdir(ws) and recorded_view != {} and pre_view != recorded_view and mtimes_of(ws) != recorded_view
            # (a CheckoutError is not a refusal: the checkout went through and could not create some entry; it records the path as the
            # link it now is, and the clean-up may then take that record at its word)
            if state is not None and not lost and not outcome.startswith("returned") and outcome != "CheckoutError" and edited and not dangling and not agreed and rng.random() < 0.8:
                # the checkout was refused / failed: it must not have recorded the user's edited workspace as its own link
                res.count("cleanups_after_checkout")
                mid = walk_files(ws)
                unused = state.get_unused_links([], fs)
                state.remove_links(unused, fs)
                end = walk_files(ws) if os.path.lexists(ws) else {}
                for k, v in mid.items():
                    if v is not None and end.get(k) != v and H("md5", v) not in intact:
                        res.violation(f"uncached-user-file-removed-by-link-cleanup/after-{outcome}",
                                      f"{'/'.join(k)} holds bytes that are not in the cache; link clean-up after the checkout ({outcome}) removed it",
                                      case=case, detail={**cfg, "unused": list(unused)[:4], "asked": calls[:4], "before": sorted("/".join(k_) for k_ in before), "mid": sorted("/".join(k_) for k_ in mid)})
                        break
            if state is not None:
                state.close()
            env.reset_staging()
            ctx.drop(d)

        def co_single(case=case, rng=rng):
            """single-file targets: checkout A, the user edits the file, a non-forced checkout of B, then link clean-up"""
            d = ctx.fresh("f")
            cls = rng.choice(["local", "local", "base"])
            link = rng.choice(["copy", "hardlink", "symlink"])
            use_state = rng.random() < 0.75
            res.count(f"store/{cls}")
            res.count(f"link/{link}")
            res.count("single_file_targets")
            state = env.mk_state(d, os.path.join(d, "tmp")) if use_state else None
            odb = env.odb_of_class(cls, os.path.join(d, "cache"), state=state, type=[link])
            a, b = gen.small_content(rng) + b"A", gen.small_content(rng) + b"B"
            oids = {}
            for nm, data in (("a", a), ("b", b)):
                p_ = os.path.join(d, "src-" + nm)
                with open(p_, "wb") as f:
                    f.write(data)
                _s, _m, obj, _r = env.stage_and_transfer(odb, p_)
                oids[nm] = obj.hash_info.value
            ws = os.path.join(d, "ws", "out.bin")
            os.makedirs(os.path.dirname(ws))
            checkout(ws, fs, odb.get(oids["a"]), odb, force=True, state=state)
            edit = rng.choice(["uncached-rename", "uncached-inplace", "none", "cached-b"])
            if edit == "uncached-inplace" and link != "copy":
                edit = "uncached-rename"
            user = gen.small_content(rng) + b"user-own"
            if edit == "uncached-rename":
                gen.replace_by_rename(ws, user)
            elif edit == "uncached-inplace":
                os.chmod(ws, 0o644)
                with open(ws, "wb") as f:
                    f.write(user)
            elif edit == "cached-b":
                gen.replace_by_rename(ws, b)
            before = file_bytes(ws)
            uncached = H("md5", before) not in colab.cache_intact_digests(os.path.join(d, "cache"))
            if uncached:
                res.count("uncached_files_in_workspace")
                res.nontrivial("single", a, b, before, cls, link, use_state)
            res.evaluated()
            res.count("checkouts")
            prompt_mode = rng.choice(["none", "decline"])
            outcome = "returned"
            try:
                checkout(ws, fs, odb.get(oids["b"]), odb, force=False, relink=rng.random() < 0.3, state=state,
                         prompt=(lambda m: res.count("declining_prompt_calls") or False) if prompt_mode == "decline" else None)
                res.count("normal_returns")
            except PromptError:
                outcome = "PromptError"
                res.count("prompt_errors")
            except (CheckoutError, LinkError) as e:
                outcome = type(e).__name__
            cfg = {"single_file": True, "store": cls, "link": link, "state": use_state, "edit": edit, "prompt": prompt_mode, "outcome": outcome}
            res.sample(cfg)
            after = file_bytes(ws) if os.path.lexists(ws) and os.path.exists(ws) else None
            if uncached and after != before:
                res.violation(f"uncached-user-file-{'removed' if after is None else 'overwritten'}/single-file/{outcome}",
                              "the single-file target held bytes that are not in the cache and was destroyed by a non-forced checkout", case=case, detail=cfg)
            elif uncached and outcome == "returned":
                res.violation("uncached-file-in-the-way-not-refused/single-file", "checkout returned normally over an uncached file", case=case, detail=cfg)
            elif state is not None and uncached and outcome != "returned":
                res.count("cleanups_after_checkout")
                unused = state.get_unused_links([], fs)
                state.remove_links(unused, fs)
                end = file_bytes(ws) if os.path.exists(ws) else None
                if end != before:
                    res.violation(f"uncached-user-file-removed-by-link-cleanup/after-{outcome}",
                                  "the refused checkout recorded the user's edited file as its own link; link clean-up then removed it", case=case,
                                  detail={**cfg, "unused": list(unused)})
            if state is not None:
                state.close()
            env.reset_staging()
            ctx.drop(d)

        def file_where_tree_goes(case=case, rng=rng):
            """the checkout location is an uncached file of the user's, the target is a directory object"""
            d = ctx.fresh("g")
            cls = rng.choice(["local", "local", "base"])
            link = rng.choice(["copy", "hardlink", "symlink"])
            state = env.mk_state(d, os.path.join(d, "tmp")) if rng.random() < 0.5 else None
            odb = env.odb_of_class(cls, os.path.join(d, "cache"), state=state, type=[link])
            T, _e = gen.tree(rng, depth=rng.randrange(0, 2), fanout=3, odd=0.2, min_files=1, empty_dirs=False)
            tobj = colab.populate(odb, d, T, "tsrc")
            ws = os.path.join(d, "ws", "out")
            os.makedirs(os.path.dirname(ws))
            own = gen.small_content(rng) + b"user-own-file"
            with open(ws, "wb") as f:
                f.write(own)
            res.evaluated()
            res.count("checkouts")
            res.count("file_where_a_tree_goes_cases")
            res.count(f"store/{cls}")
            res.count(f"link/{link}")
            res.count("uncached_files_in_workspace")
            res.nontrivial("file-where-tree", sorted(T.items()), own, cls, link)
            outcome = "returned"
            try:
                checkout(ws, fs, load(odb, tobj.hash_info), odb, force=False, relink=rng.random() < 0.3, state=state,
                         prompt=(lambda m: res.count("declining_prompt_calls") or False) if rng.random() < 0.5 else None)
                res.count("normal_returns")
            except PromptError:
                outcome = "PromptError"
                res.count("prompt_errors")
            except (CheckoutError, LinkError, OSError) as e:
                outcome = type(e).__name__  # loud
            cfg = {"file_where_tree_goes": True, "store": cls, "link": link, "outcome": outcome}
            res.sample(cfg)
            if not os.path.isfile(ws) or os.path.islink(ws) or file_bytes(ws) != own:
                res.violation(f"uncached-user-file-removed/file-where-a-tree-goes/{outcome}",
                              "the checkout location was a file holding bytes that are not in the cache; a non-forced checkout of a directory object destroyed it",
                              case=case, detail=cfg)
            elif outcome == "returned":
                res.violation("uncached-file-in-the-way-not-refused/file-where-a-tree-goes", "checkout returned normally", case=case, detail=cfg)
            if state is not None:
                state.close()
            env.reset_staging()
            ctx.drop(d)

        def output_removed(case=case, rng=rng):
            """checkout with no target object (the output is gone from the project): the workspace holds the tree, part of which is not in the cache"""
            d = ctx.fresh("n")
            cls = rng.choice(["local", "local", "base"])
            link = rng.choice(["copy", "hardlink", "symlink"])
            state = env.mk_state(d, os.path.join(d, "tmp")) if rng.random() < 0.5 else None
            odb = env.odb_of_class(cls, os.path.join(d, "cache"), state=state, type=[link])
            T, _e = gen.tree(rng, depth=rng.randrange(0, 3), fanout=3, odd=0.2, min_files=2, empty_dirs=False)
            tobj = colab.populate(odb, d, T, "tsrc")
            ws = os.path.join(d, "ws", "out")
            os.makedirs(os.path.dirname(ws))
            gen.write_tree(ws, T)  # the user's own copies of the data
            # some file objects are not in the cache (never pushed / collected): those workspace files are the only copies
            gone = set()
            for k_, v_ in sorted(T.items()):
                if v_ and rng.random() < 0.4:
                    op_ = odb.oid_to_path(H("md5", v_))
                    if os.path.exists(op_):
                        os.chmod(op_, 0o644)
                        os.unlink(op_)
                    gone.add(H("md5", v_))
            before = walk_files(ws)
            intact = colab.cache_intact_digests(os.path.join(d, "cache"))
            uncached = {k_ for k_, v_ in before.items() if v_ is not None and H("md5", v_) not in intact}
            res.evaluated()
            res.count("checkouts")
            res.count("output_removed_cases")
            res.count(f"store/{cls}")
            res.count(f"link/{link}")
            res.count("uncached_files_in_workspace", len(uncached))
            if uncached:
                res.nontrivial("output-removed", sorted(T.items()), sorted(gone), cls, link)
            outcome = "returned"
            try:
                checkout(ws, fs, None, odb, force=False, state=state, prompt=(lambda m: res.count("declining_prompt_calls") or False) if rng.random() < 0.5 else None)
                res.count("normal_returns")
            except PromptError:
                outcome = "PromptError"
                res.count("prompt_errors")
            except (CheckoutError, LinkError) as e:
                outcome = type(e).__name__
            cfg = {"output_removed": True, "store": cls, "link": link, "outcome": outcome, "uncached": sorted("/".join(k_) for k_ in uncached)}
            res.sample(cfg)
            after = walk_files(ws) if os.path.lexists(ws) else {}
            lost = [k_ for k_ in uncached if after.get(k_) != before[k_]]
            if lost:
                res.violation(f"uncached-user-file-removed/no-target-object/{outcome}",
                              f"{'/'.join(lost[0])} holds bytes that are not in the cache and was removed by a non-forced checkout without a target ({outcome})",
                              case=case, detail=cfg)
            elif uncached and outcome == "returned":
                res.violation("uncached-file-in-the-way-not-refused/no-target-object", "checkout returned normally", case=case, detail=cfg)
            if state is not None:
                state.close()
            env.reset_staging()
            ctx.drop(d)

        def symlinked_subdir(case=case, rng=rng):
            """a sub-directory of the workspace is a symbolic link to a directory of the user's elsewhere, holding uncached files under names the target also has"""
            d = ctx.fresh("y")
            cls = rng.choice(["local", "local", "base"])
            link = rng.choice(["copy", "hardlink", "symlink"])
            state = env.mk_state(d, os.path.join(d, "tmp")) if rng.random() < 0.5 else None
            odb = env.odb_of_class(cls, os.path.join(d, "cache"), state=state, type=[link])
            T = {("top",): gen.small_content(rng) + b"t", ("sub", "x"): gen.small_content(rng) + b"x", ("sub", "deep", "y"): gen.small_content(rng) + b"y"}
            tobj = colab.populate(odb, d, T, "tsrc")
            ws = os.path.join(d, "ws", "out")
            os.makedirs(ws)
            with open(os.path.join(ws, "top"), "wb") as f:
                f.write(T[("top",)])
            outside = os.path.join(d, "users-own-dir")
            own = {("x",): gen.small_content(rng) + b"own-x", ("deep", "y"): gen.small_content(rng) + b"own-y", ("other",): b"own-other"}
            gen.write_tree(outside, own)
            os.symlink(outside, os.path.join(ws, "sub"))
            res.evaluated()
            res.count("checkouts")
            res.count("symlinked_subdirectory_cases")
            res.count(f"store/{cls}")
            res.count(f"link/{link}")
            res.count("uncached_files_in_workspace", len(own))
            res.nontrivial("symlinked-subdir", sorted(T.items()), sorted(own.items()), cls, link)
            outcome = "returned"
            try:
                checkout(ws, fs, load(odb, tobj.hash_info), odb, force=False, state=state, relink=rng.random() < 0.3,
                         prompt=(lambda m: res.count("declining_prompt_calls") or False) if rng.random() < 0.5 else None)
                res.count("normal_returns")
            except PromptError:
                outcome = "PromptError"
                res.count("prompt_errors")
            except (CheckoutError, LinkError, OSError) as e:
                outcome = type(e).__name__
            cfg = {"symlinked_subdirectory": True, "store": cls, "link": link, "outcome": outcome}
            res.sample(cfg)
            now = walk_files(outside) if os.path.isdir(outside) else {}
            changed = sorted(k for k, v in own.items() if now.get(k) != v)
            if changed:
                res.violation("uncached-user-file-overwritten/through-symlinked-directory",
                              f"{'/'.join(changed[0])} in the directory the workspace's `sub` links to held bytes that are not in the cache; a non-forced checkout ({outcome}) replaced it",
                              case=case, detail=cfg)
            if state is not None:
                state.close()
            env.reset_staging()
            ctx.drop(d)

        def links(case=case, rng=rng):
            d = ctx.fresh("l")
            root = os.path.join(d, "repo")
            os.makedirs(root)
            state = env.mk_state(root, os.path.join(d, "tmp"))
            res.evaluated()
            res.count("link_histories")
            paths = {}  # abs path -> kind
            for i in range(rng.randrange(2, 7)):
                nm = gen.name(rng, used={os.path.basename(p) for p in paths}, odd=0.3)
                p = os.path.join(root, nm)
                r0 = rng.random()
                if r0 < 0.3:
                    os.makedirs(p)
                    for j in range(rng.randrange(1, 4)):
                        with open(os.path.join(p, f"in{j}"), "wb") as f:
                            f.write(gen.small_content(rng))
                    if rng.random() < 0.6:
                        # nested sub-directories holding equally named files (train/part-0, valid/part-0)
                        for sub in ("train", "valid", "test")[: rng.randrange(2, 4)]:
                            os.makedirs(os.path.join(p, sub))
                            for nm2 in ("part-0", "part-1"):
                                with open(os.path.join(p, sub, nm2), "wb") as f:
                                    f.write(gen.small_content(rng))
                        res.count("dir_links_with_duplicate_basenames")
                    paths[p] = "dir"
                elif r0 < 0.5:
                    # a checked-out file under the symlink link type: a symlink into some cache directory
                    tdir = os.path.join(d, "linkcache")
                    os.makedirs(tdir, exist_ok=True)
                    tgt = os.path.join(tdir, f"obj{i}")
                    with open(tgt, "wb") as f:
                        f.write(gen.small_content(rng))
                    os.symlink(tgt, p)
                    paths[p] = "file"
                    res.count("symlinked_link_records")
                else:
                    with open(p, "wb") as f:
                        f.write(gen.small_content(rng))
                    paths[p] = "file"
            recorded = {}  # abs path -> "clean" | "modified"
            hist = []
            interesting = False

            def touch_change(fp):
                if os.path.islink(fp):
                    gen.replace_by_rename(fp, gen.small_content(rng) + b"was-a-link")
                    return
                before = stat_token(fp)
                with open(fp, "ab") as f:
                    f.write(b"m")
                if gen.ensure_token_changed(fp, before):
                    res.count("forced_mtime_bumps")

            for _ in range(rng.randrange(4, 14)):
                op = rng.choice(["save", "save", "modify", "replace", "remove", "query", "query", "clean"])
                plist = sorted(paths)
                if not plist:
                    break
                p = rng.choice(plist)
                if op == "save":
                    state.save_link(p, fs)
                    if os.path.lexists(p):
                        recorded[p] = "clean"
                    hist.append(("save", os.path.basename(p)))
                elif op == "modify":
                    if paths[p] == "dir":
                        inner = sorted(os.path.relpath(os.path.join(dp, f), p) for dp, _dn, fn in os.walk(p) for f in fn)
                        if inner and rng.random() < 0.6:
                            touch_change(os.path.join(p, rng.choice(inner)))
                        else:
                            with open(os.path.join(p, f"new{rng.randrange(999)}"), "wb") as f:
                                f.write(b"n")
                    else:
                        touch_change(p)
                    if p in recorded:
                        recorded[p] = "modified"
                        interesting = True
                    hist.append(("modify", os.path.basename(p)))
                elif op == "replace" and paths[p] == "file":
                    gen.replace_by_rename(p, gen.small_content(rng) + b"r")
                    if p in recorded:
                        recorded[p] = "modified"
                        interesting = True
                    hist.append(("replace", os.path.basename(p)))
                elif op == "remove":
                    if paths[p] == "dir":
                        import shutil

                        shutil.rmtree(p)
                    else:
                        os.unlink(p)
                    del paths[p]
                    hist.append(("remove", os.path.basename(p)))
                elif op in ("query", "clean"):
                    used = [q for q in plist if rng.random() < 0.4]
                    if used:
                        interesting = True
                    res.count("unused_link_queries")
                    unused = state.get_unused_links(used, fs)
                    hist.append((op, [os.path.basename(u) for u in used]))
                    for rel in unused:
                        ap = os.path.join(root, rel)
                        if ap not in recorded:
                            res.violation("unused-link-never-recorded", f"{rel} was never recorded by save_link", case=case, detail={"history": hist})
                        elif ap in used:
                            res.violation("unused-link-listed-as-used", f"{rel} is in the caller's used list", case=case, detail={"history": hist})
                        elif recorded[ap] == "modified":
                            res.violation("unused-link-modified-since-recorded", f"{rel} was modified or replaced after it was recorded", case=case,
                                          detail={"history": hist})
                    if op == "clean":
                        res.count("remove_links_calls")
                        snap = {q: (walk_files(q) if paths[q] == "dir" else {(): file_bytes(q)}) for q in paths if os.path.lexists(q)}
                        state.remove_links(unused, fs)
                        gone = {os.path.join(root, rel) for rel in unused}
                        for q, content in snap.items():
                            if q in gone:
                                if os.path.lexists(q):
                                    res.violation("remove_links-left-path", f"{os.path.basename(q)} not removed", case=case, detail={"history": hist})
                                continue
                            now = (walk_files(q) if os.path.isdir(q) else {(): file_bytes(q)}) if os.path.lexists(q) else None
                            if now != content:
                                res.violation("remove_links-removed-other-path", f"{os.path.basename(q)} was not in the list but was removed/changed",
                                              case=case, detail={"history": hist})
                        for q in gone:
                            paths.pop(q, None)
                            recorded.pop(q, None)
                        # a second query no longer lists what was cleaned
                        again = state.get_unused_links([], fs)
                        for rel in again:
                            if os.path.join(root, rel) in gone:
                                res.violation("removed-link-still-recorded", f"{rel} still listed after remove_links", case=case, detail={"history": hist})
            if interesting:
                res.nontrivial("links", hist)
            res.sample({"link_history": hist[:10]})
            state.close()
            ctx.drop(d)

        if case % 3 == 2:
            ctx.guard(case, links)
        elif case % 24 == 7:
            ctx.guard(case, file_where_tree_goes)
        elif case % 24 == 13:
            ctx.guard(case, output_removed)
        elif case % 24 == 19:
            ctx.guard(case, symlinked_subdir)
        elif case % 6 == 1:
            ctx.guard(case, co_single)
        else:
            ctx.guard(case, co)
