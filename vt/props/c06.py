"""C06 - garbage collection removes exactly the unused objects and never a used one."""

import os

from .. import gen
from ..oracle import DIR_SUFFIX, H, canonical_dir_bytes, list_store, parse_dir_bytes, store_snapshot

RULE = (
    "case = (store class local/base/remote, store algorithm, hand-written store content: files, directory objects incl. shared and "
    "absent children, strays, legacy `.unpacked` directories next to directory objects (a dry run must leave the whole store directory as it was); used set mixing present ids, absent ids, ids under another algorithm name, directory ids; "
    "shallow/expanding; dry/real; same or separate cache_odb (also of the other md5 flavour); read-only flag; the same collection repeated in the same process - real run after a dry run, or again after the removed objects were put back); non-trivial = at least one object must go and at "
    "least one must stay; distinct = hash of the whole configuration"
)
ASSUMPTIONS = [
    "store contents are written by the harness itself (independent of dvc-data's add path)",
    "permitted refusals, only with the store left unchanged: ObjectDBPermissionError on a read-only store; "
    "FileNotFoundError/ObjectFormatError when expanding a used directory id that cache_odb cannot load (if gc goes ahead instead, the files that directory object lists - known to the harness - still count as used)",
    "stray files that do not have the <2>/<rest> layout are outside the property",
]
MONITORS = "independent before/after os.walk listing of the store compared with a set-difference model; return value; byte snapshot of survivors"
REQUIRED_COUNTERS = ["crowded_prefix_calls", "stores_with_a_partial_existence_index", "used_as/generator-bound-to-its-thread", "used_as/generator-that-fails", "calls_relying_on_the_default_mode_with_cache_odb", "file_objects_with_a_directory_twin", "collecting_handle_wrote_first", "listings_from_store_of_other_md5_flavour", "unpacked_dirs_planted", "repeat_calls_in_one_process", "stale_listing_loaded_before_gc", "path_spelling/trailing-slash", "path_spelling/dotdot", "nfc_nfd_sibling_listings", "used_as/generator", "used_as/iterator", "gc_calls", "expanding_calls_with_used_dir", "dry_calls", "readonly_calls", "real_removals", "foreign_algo_ids_in_used"]


def _put(root, oid, data, mode):
    p = os.path.join(root, oid[:2], oid[2:])
    os.makedirs(os.path.dirname(p), exist_ok=True)
    with open(p, "wb") as f:
        f.write(data)
    if mode is not None:
        os.chmod(p, mode)


def run_shard(ctx):
    from dvc_objects.errors import ObjectDBPermissionError, ObjectFormatError

    from dvc_data.hashfile.gc import gc

    from .. import env

    res = ctx.res

    for case, rng in ctx.cases(ctx.plan["n"]):

        def one(case=case, rng=rng):
            d = ctx.fresh("gc")
            cls = rng.choice(["local", "local", "base", "remote"])
            algo = rng.choice(["md5", "md5", "md5", "sha256", "md5-dos2unix"])
            shallow = rng.random() < 0.45
            dry = rng.random() < 0.25
            read_only = rng.random() < 0.06
            separate_cache = rng.random() < 0.3
            root = os.path.join(d, "store")
            croot = os.path.join(d, "cache") if separate_cache else root
            mode = 0o444 if cls == "local" else None

            # ---- contents
            nfiles = rng.randrange(0, 9)
            blobs = [gen.small_content(rng) for _ in range(nfiles)]
            if rng.random() < 0.3:
                blobs.append(gen.mined_00(rng, "md5" if algo.startswith("md5") else algo))
            file_oids = {}
            for b in blobs:
                file_oids[H(algo, b)] = b
            present_files = {o for o in file_oids if rng.random() < 0.85}
            for o in present_files:
                _put(root, o, file_oids[o], mode)
            dirs = {}  # oid -> (listing, bytes)
            if algo in ("md5", "md5-dos2unix"):
                for _ in range(rng.randrange(0, 4)):
                    members = [o for o in file_oids if rng.random() < 0.5]
                    listing = {}
                    for i, o in enumerate(members):
                        rel = gen.name(rng, odd=0.3) if rng.random() < 0.6 else gen.name(rng) + "/" + gen.name(rng)
                        listing[f"{rel}{i}"] = o
                    others = [o for o in file_oids if o not in members]
                    if len(others) >= 2 and rng.random() < 0.3:
                        # two canonically equivalent names (composed / decomposed) listing two files that nothing else lists
                        listing["d/caf\u00e9.txt"], listing["d/cafe\u0301.txt"] = others[0], others[1]
                        res.count("nfc_nfd_sibling_listings")
                    if rng.random() < 0.2:
                        listing["ghost"] = H("md5", b"ghost-not-in-store" + bytes([rng.randrange(256)]))
                    raw = canonical_dir_bytes(listing)
                    dirs[H("md5", raw) + DIR_SUFFIX] = (listing, raw)
            dirs_in_store = {o for o in dirs if rng.random() < 0.8}
            twin_file = None
            if dirs and algo == "md5" and rng.random() < 0.15:
                # a plain file whose bytes happen to be a directory listing (someone added the listing as a file): its object X lives next to X.dir
                do_ = rng.choice(sorted(dirs))
                twin_file = do_[: -len(DIR_SUFFIX)]
                file_oids[twin_file] = dirs[do_][1]
                present_files.add(twin_file)
                _put(root, twin_file, dirs[do_][1], mode)
                dirs_in_store.add(do_)
                res.count("file_objects_with_a_directory_twin")
            dirs_in_cache = {o for o in dirs if (o in dirs_in_store if not separate_cache else rng.random() < 0.7)}
            for o in dirs_in_store:
                _put(root, o, dirs[o][1], mode)
            if separate_cache:
                for o in dirs_in_cache:
                    _put(croot, o, dirs[o][1], 0o444)
            corrupt_dir = None
            if dirs_in_cache and rng.random() < 0.08:
                corrupt_dir = rng.choice(sorted(dirs_in_cache))
                p = os.path.join(croot, corrupt_dir[:2], corrupt_dir[2:])
                os.chmod(p, 0o644)
                with open(p, "wb") as f:
                    f.write(b"{not json")
            if rng.random() < 0.3:
                os.makedirs(root, exist_ok=True)
                with open(os.path.join(root, "stray.txt"), "wb") as f:
                    f.write(b"stray")
            # legacy "<dir object>.unpacked" directories next to some directory objects (older versions kept an unpacked copy there)
            unpacked = set()
            if cls == "local":
                for o in sorted(dirs_in_store):
                    if rng.random() < 0.25:
                        up = os.path.join(root, o[:2], o[2:] + ".unpacked")
                        os.makedirs(up, exist_ok=True)
                        with open(os.path.join(up, "f"), "wb") as f:
                            f.write(b"unpacked copy")
                        unpacked.add(o)
                        res.count("unpacked_dirs_planted")
            os.makedirs(root, exist_ok=True)
            os.makedirs(croot, exist_ok=True)

            # ---- used set
            used = []
            all_ids = sorted(set(file_oids) | set(dirs))
            used_dirs = set()
            for o in all_ids:
                r = rng.random()
                if r < 0.45:
                    used.append(env.HI(algo, o))
                    if o in dirs:
                        used_dirs.add(o)
                elif r < 0.60:
                    other = "sha256" if algo != "sha256" else "md5"
                    used.append(env.HI(other, o))  # same value under another algorithm: must not protect
                    res.count("foreign_algo_ids_in_used")
            if twin_file is not None and rng.random() < 0.7:
                used = [h for h in used if h.value not in (twin_file, twin_file + DIR_SUFFIX)] + [env.HI(algo, twin_file)]
                used_dirs.discard(twin_file + DIR_SUFFIX)
            for _ in range(rng.randrange(0, 3)):
                used.append(env.HI(algo, H("md5", rng.randbytes(8))))  # absent id
            rng.shuffle(used)

            # the store may be opened through a legal but non-canonical spelling of its path
            spelling = rng.choice(["canonical", "canonical", "trailing-slash", "double-slash", "dot", "dotdot"])
            res.count(f"path_spelling/{spelling}")
            pdir, pbase = os.path.split(root)
            opened = {"canonical": root, "trailing-slash": root + "/", "double-slash": pdir + "//" + pbase, "dot": pdir + "/./" + pbase,
                      "dotdot": os.path.join(pdir, "x", "..", pbase)}[spelling]
            if spelling == "dotdot":
                os.makedirs(os.path.join(pdir, "x"), exist_ok=True)
            indexed = (not read_only) and rng.random() < 0.15
            odb = env.odb_of_class(cls, opened, hash_name=algo, **({"read_only": True} if read_only else {}), **({"tmp_dir": os.path.join(d, "store-tmp")} if indexed else {}))
            if indexed:
                # the store keeps an index of what earlier transfers delivered (tmp_dir configured): it knows some of the objects -
                # what else lies in the store arrived without it
                from dvc_data.hashfile.db import get_index as _get_index

                known_ = [o_ for o_ in sorted(os.listdir(root)) if len(o_) == 2]
                some_ = [p2_ + f_ for p2_ in known_ for f_ in sorted(os.listdir(os.path.join(root, p2_)))]
                some_ = [o_ for o_ in some_ if rng.random() < 0.5] or some_[:1]
                _ix = _get_index(odb)
                _ix.update([o_ for o_ in some_ if o_.endswith(".dir")], [o_ for o_ in some_ if not o_.endswith(".dir")])
                res.count("stores_with_a_partial_existence_index")
            if not read_only and cls != "remote" and rng.random() < 0.25:
                # this handle has written to the store before (anything it memoised about the store's layout then is old news now):
                # a further object arrives through it first, everything under other prefixes was put there by other hands
                mine = gen.small_content(rng) + b"written-by-the-collecting-handle"
                mp_ = os.path.join(d, "mine")
                with open(mp_, "wb") as f:
                    f.write(mine)
                # (temporarily hide the rest of the store, so that the handle sees only its own prefix directory being created)
                hidden = os.path.join(d, "store-hidden")
                os.rename(root, hidden)
                os.makedirs(root)
                odb.add(mp_, env.localfs(), H(algo, mine))
                mo_ = H(algo, mine)
                for sub_ in os.listdir(hidden):
                    src_, dst_ = os.path.join(hidden, sub_), os.path.join(root, sub_)
                    if os.path.isdir(src_) and os.path.isdir(dst_):
                        for f_ in os.listdir(src_):
                            os.rename(os.path.join(src_, f_), os.path.join(dst_, f_))
                    else:
                        os.rename(src_, dst_)
                file_oids[mo_] = mine
                res.count("collecting_handle_wrote_first")
            # the listings may come from a store of the other md5 flavour (legacy store collected with the new cache at hand, or the reverse)
            calgo = algo
            if separate_cache and algo in ("md5", "md5-dos2unix") and rng.random() < 0.4:
                calgo = "md5-dos2unix" if algo == "md5" else "md5"
                res.count("listings_from_store_of_other_md5_flavour")
            cache_odb = env.odb_of_class("local", croot, hash_name=calgo) if separate_cache else None

            # history: under a used directory's id there first sat a well-formed but wrong listing (an interrupted sync), which
            # something loaded; then the genuine object replaced it - gc must expand what is in the store now
            if used_dirs and not shallow and rng.random() < 0.2:
                from dvc_data.hashfile.tree import Tree

                codb = cache_odb or odb
                for o in sorted(used_dirs)[:2]:
                    pth = os.path.join(croot, o[:2], o[2:])
                    if os.path.exists(pth) and o != corrupt_dir:
                        with open(pth, "rb") as f:
                            genuine = f.read()
                        os.chmod(pth, 0o644)
                        with open(pth, "wb") as f:
                            f.write(b"[]" if rng.random() < 0.5 else canonical_dir_bytes({"only": H("md5", b"x")}))
                        try:
                            Tree.load(codb, env.HI(algo, o))
                        except Exception:  # noqa: BLE001
                            pass
                        with open(pth, "wb") as f:
                            f.write(genuine)
                        os.chmod(pth, 0o444)
                        res.count("stale_listing_loaded_before_gc")
            def everything(r_):
                out_ = set()
                for dp_, dn_, fn_ in os.walk(r_):
                    for x_ in dn_ + fn_:
                        out_.add(os.path.relpath(os.path.join(dp_, x_), r_))
                return out_

            all_before = everything(root)
            before = store_snapshot(root)
            cache_before = store_snapshot(croot) if separate_cache else None
            present = set(before)

            # ---- model
            keep = {hi.value for hi in used if hi.name == algo}
            unloadable = []
            if not shallow:
                for o in sorted(used_dirs):
                    src = croot
                    p = os.path.join(src, o[:2], o[2:])
                    try:
                        with open(p, "rb") as f:
                            listing, _f = parse_dir_bytes(f.read())
                        keep |= set(listing.values())
                    except (FileNotFoundError, ValueError):
                        unloadable.append(o)
                        # the listing cannot be read where gc looks for it: gc may refuse, but if it goes ahead the files the
                        # directory object (content-addressed: any valid copy says the same) lists are still used
                        keep |= set(dirs[o][0].values())
            expected_removed = present - keep
            res.evaluated()
            res.count("gc_calls")
            if not shallow and used_dirs:
                res.count("expanding_calls_with_used_dir")
            if dry:
                res.count("dry_calls")
            if read_only:
                res.count("readonly_calls")
            cfg = {
                "path_spelling": spelling, "class": cls, "algo": algo, "shallow": shallow, "dry": dry, "read_only": read_only,
                "separate_cache": separate_cache, "present": len(present), "used": len(used),
                "used_dirs": len(used_dirs), "expected_removed": len(expected_removed), "unloadable_used_dirs": len(unloadable),
            }
            if expected_removed and (present - expected_removed):
                res.nontrivial(sorted(present), sorted((h.name, h.value) for h in used), shallow, dry, cls, algo, separate_cache)
            res.sample(cfg)

            jobs = rng.choice([None, 1, 4])
            form = rng.choice(["list", "set", "iterator", "generator", "tuple", "generator-bound-to-its-thread", "generator-that-fails"])
            res.count(f"used_as/{form}")
            cfg["used_as"] = form
            import threading as _th

            def bound_(me=_th.get_ident()):
                # like a database cursor: only the thread that made it may advance it
                for h in list(used):
                    if _th.get_ident() != me:
                        raise RuntimeError("objects of this kind can only be used in the thread that created them")
                    yield h

            def failing_():
                lst_ = list(used)
                for h in lst_[: len(lst_) // 2]:
                    yield h
                raise RuntimeError("the caller's listing of used objects broke off")

            used_arg = {"list": lambda: list(used), "set": lambda: set(used), "iterator": lambda: iter(list(used)),
                        "generator": lambda: (h for h in used), "tuple": lambda: tuple(used), "generator-bound-to-its-thread": bound_,
                        "generator-that-fails": failing_}[form]()
            # callers that want the default (shallow) mode may simply not say so, with or without naming a cache store
            mode_kw = {} if (shallow and rng.random() < 0.5) else {"shallow": shallow}
            if not mode_kw:
                res.count("calls_relying_on_the_default_mode" + ("_with_cache_odb" if cache_odb is not None else ""))
            try:
                n = gc(odb, used_arg, jobs=jobs, cache_odb=cache_odb, dry=dry, **mode_kw)
                exc = None
                if form == "generator-that-fails":
                    # gc went ahead although it never got the whole list: whatever it believes, nothing the caller was about to list is garbage
                    res.count("gc_returned_after_the_used_listing_failed")
                    lost_ = sorted((set(before) - set(store_snapshot(root))) & keep)
                    if lost_:
                        res.violation("used-object-removed/after-the-used-listing-failed", f"the caller's iterable of used objects raised half way; gc swallowed that and removed {lost_[:2]}",
                                      case=case, detail=cfg)
                    ctx.drop(d)
                    return
            except RuntimeError as e:
                if form != "generator-that-fails":
                    raise
                res.count("gc_refused_after_the_used_listing_failed")
                if store_snapshot(root) != before:
                    res.violation("refusal-after-removal", f"gc raised {type(e).__name__} (from the caller's iterable) but had already changed the store", case=case, detail=cfg)
                ctx.drop(d)
                return
            except ObjectDBPermissionError as e:
                exc = e
            except (FileNotFoundError, ObjectFormatError) as e:
                exc = e
            after = store_snapshot(root)

            if exc is not None:
                if after != before:
                    res.violation("refusal-after-removal", f"gc raised {type(exc).__name__} but had already changed the store", case=case, detail=cfg)
                if isinstance(exc, ObjectDBPermissionError):
                    if not read_only:
                        res.violation("spurious-permission-error", "gc refused a writable store", case=case, detail=cfg)
                elif read_only:
                    pass
                elif not unloadable:
                    res.violation(
                        f"gc-raised/{type(exc).__name__}",
                        f"gc raised {type(exc).__name__} although every used directory is loadable",
                        case=case, detail={**cfg, "exc": repr(exc)},
                    )
                else:
                    res.count("permitted_refusal_unloadable_dir")
                ctx.drop(d)
                return
            if read_only:
                res.violation("read-only-not-refused", "gc ran on a read-only store", case=case, detail=cfg)

            def judge(n, before, after, dry, tag=""):
                if n != len(expected_removed):
                    res.violation("wrong-count" + tag, f"gc returned {n}, model removes {len(expected_removed)}", case=case, detail=cfg)
                if dry:
                    if after != before:
                        res.violation("dry-run-removed" + tag, "dry run changed the store", case=case, detail=cfg)
                    elif everything(root) != all_before:
                        gone_ = sorted(all_before - everything(root))
                        res.violation("dry-run-removed/unpacked-directory" if any(".unpacked" in g_ for g_ in gone_) else "dry-run-removed/other-path",
                                      f"dry run removed {gone_[:2]} from the store directory", case=case, detail=cfg)
                    return
                gone = present - set(after)
                used_lost = gone & keep
                if used_lost:
                    res.violation("used-object-removed" + tag + ("/used-directory-not-loadable" if unloadable else ""), f"{len(used_lost)} used object(s) removed", case=case,
                                  detail={**cfg, "lost": sorted(used_lost)})
                survived = (set(after) & expected_removed)
                if survived:
                    res.violation("unused-object-kept" + tag, f"{len(survived)} unused object(s) still present", case=case,
                                  detail={**cfg, "kept": sorted(survived)})
                for o in set(after):
                    if after[o] != before.get(o):
                        res.violation("survivor-bytes-changed" + tag, "gc altered a surviving object", case=case, detail=cfg)
                        break
                res.count("real_removals", len(gone))
                for o_ in unpacked:
                    if o_ in keep and o_ in after and not os.path.isdir(os.path.join(root, o_[:2], o_[2:] + ".unpacked")):
                        res.violation("unpacked-copy-of-used-directory-removed" + tag, f"the .unpacked directory of used {o_} was removed", case=case, detail=cfg)

            judge(n, before, after, dry)
            if unloadable:
                res.count("went_ahead_with_unloadable_used_dir")
            # ---- the same collection once more in the same process: the real run after a dry run, or a repeat after the removed
            # objects came back (e.g. fetched again)
            if rng.random() < 0.7:
                if not dry:
                    for o in present - set(after):
                        _put(root, o, before[o], mode)
                res.count("repeat_calls_in_one_process")
                cfg["second_call"] = "real-after-dry" if dry else "repeat-after-restore"
                used_arg2 = list(used)
                try:
                    n2 = gc(odb, used_arg2, jobs=jobs, cache_odb=cache_odb, shallow=shallow, dry=False)
                    after2 = store_snapshot(root)
                    judge(n2, before, after2, False, "/second-call-in-process")
                except (FileNotFoundError, ObjectFormatError) as e:
                    res.violation("second-call-raised", f"the repeated gc raised {type(e).__name__} although the first went through", case=case, detail=cfg)
            if separate_cache and store_snapshot(croot) != cache_before:
                res.violation("cache-odb-modified", "gc modified cache_odb", case=case, detail=cfg)
            _o, _t, strays = list_store(root)
            ctx.drop(d)

        def crowded_prefix(case=case, rng=rng):
            """thousands of objects under one two-letter prefix (more than any per-prefix estimate or page), a small used set"""
            import hashlib

            from ..oracle import store_snapshot

            d = ctx.fresh("gcx")
            root = os.path.join(d, "store")
            cls = rng.choice(["local", "base"])
            mined, i_ = [], 0
            want_n = rng.choice([2000, 2300])
            while len(mined) < want_n:
                b_ = b"crowd %d %d" % (case, i_)
                i_ += 1
                o_ = hashlib.md5(b_).hexdigest()  # noqa: S324
                if o_.startswith("00"):
                    mined.append((o_, b_))
            others = [(hashlib.md5(b"other %d %d" % (case, j_)).hexdigest(), b"other %d %d" % (case, j_)) for j_ in range(40)]  # noqa: S324
            for o_, b_ in mined + others:
                _put(root, o_, b_, 0o444)
            odb = env.odb_of_class(cls, root)
            present = {o_ for o_, _b in mined + others}
            used = {o_ for o_ in present if rng.random() < 0.12}
            res.evaluated()
            res.count("gc_calls")
            res.count("crowded_prefix_calls")
            res.nontrivial("crowded", len(present), len(used), cls)
            n = gc(odb, [env.HI("md5", o_) for o_ in sorted(used)], jobs=rng.choice([None, 1, 4]))
            after = set(store_snapshot(root))
            if after != used or n != len(present) - len(used):
                res.violation("unused-object-kept/crowded-prefix" if after - used else "used-object-removed/crowded-prefix" if used - after else "wrong-count/crowded-prefix",
                              f"store with {len(mined)} objects under prefix 00: gc returned {n} (model {len(present) - len(used)}), kept {len(after - used)} unused, removed {len(used - after)} used",
                              case=case, detail={"class": cls, "present": len(present), "used": len(used)})
            ctx.drop(d)

        ctx.guard(case, crowded_prefix if (case % 3000 == 17) else one)
