"""C08 - index diff is exact: every key once, correctly classified, renames paired."""

from .. import gen
from ..oracle import canonical_dir_oid

RULE = (
    "case = pair of well-formed indexes derived from one random nested tree by per-key edits (drop, hash change, metadata "
    "change, hash or metadata removed, exec flip, file<->directory kind change at any depth, whole sub-tree moved = rename), "
    "directories per side in implicit / explicit / hashed style (hashed = the canonical digest of the file entries below, "
    "so indexes are hash-consistent), duplicate hashes, one side None, identical sides; all option combinations the API allows "
    "(with_unchanged, hash_only, meta_only, with_renames unless meta_only, shallow, meta_cmp_key, roots).  Reference = flat "
    "key-by-key classification written from the statement + metamorphic relations (self-diff, argument swap, conservation "
    "of keys).  Histories on one index object: diff, list, edit the index in place (new keys through new intermediate directories, deletions, replaced entries), diff again.  A directory that cannot be loaded on one side with with_unknown=True: the set of keys reported as not comparable is the same in every comparison mode.  non-trivial = the two sides differ; distinct = (both indexes, options)"
)
ASSUMPTIONS = [
    "well-formed: entries below a key only if that key is an implicit directory or carries a directory entry (Meta.isdir)",
    "an entry with a hash but no Meta is compared as if it had a default Meta (index.info() gives it one); modelled in the reference",
    "shallow=True: no duplicates, per-change classification, and every changed key that exists on one side only with no hashed entry above it on that side is reported (what else shallow leaves out is not judged)",
    "shortcut (hash_only without with_unchanged): reported subset of the reference, every hidden key below a directory entry with equal truthy hash on both sides, and no hidden key is a file entry; hidden representational differences of sub-directory entries are counted",
]
MONITORS = "multiset of (key, type) reported by diff() vs flat reference; rename pair validity and maximality; self-diff / swap / conservation relations on the implementation's own outputs"
REQUIRED_COUNTERS = ["two_handle_diffs", "inplace_history_diffs", "inplace_adds_through_new_directories", "unknown_directory_diffs", "unknown_diff_outside_keys_judged", "keys_reported_unknown", "meta_cmp_key_projecting_to_none_diffs", "diffs", "with_renames_diffs", "renames_seen", "shortcut_diffs", "shortcut_branches_skipped", "kind_change_pairs",
                     "diffs_before_and_after_the_storage_is_attached", "self_diffs", "swap_relations", "one_side_none", "shallow_diffs", "roots_diffs", "changes_classified", "meta_cmp_key_diffs"]

ADD, MODIFY, RENAME, DELETE, UNCHANGED = "add", "modify", "rename", "delete", "unchanged"


def run_shard(ctx):
    from dvc_data.hashfile.hash_info import HashInfo
    from dvc_data.hashfile.meta import Meta
    from dvc_data.index import DataIndex, DataIndexEntry
    from dvc_data.index.diff import diff

    res = ctx.res

    # ------------------------------------------------------------------ model
    # side model: {key: ("file", hash|None, meta|None)} | {key: ("dir", style)} ; style in implicit/explicit/hashed
    def gen_base(rng):
        files, _e = gen.tree(rng, depth=rng.randrange(0, 4), fanout=3, odd=0.2, dup=0.5, min_files=1, empty_dirs=False,
                             pool_=[bytes([i]) for i in range(4)])
        pool = ["%032x" % (i + 1) for i in range(5)]
        out = {}
        for k, v in files.items():
            h = rng.choice(pool) if rng.random() < 0.5 else "%032x" % rng.getrandbits(64)
            out[k] = h
        return out, pool

    def side_from(rng, base, pool, all_hashed_ok):
        """-> {key: (hash|None, size|None-meta marker, isexec)} file map after edits"""
        out = {}
        for k, h in base.items():
            r = rng.random()
            if r < 0.15:
                continue  # dropped
            meta = (rng.choice([1, 2, 3]), rng.random() < 0.2, rng.choice([None, None, "e1", "e2"]), rng.choice([None, None, 1000.25, 1000.75, 1001.25, 1000]))
            if r < 0.30:
                h = rng.choice(pool)
            elif r < 0.36:
                h = None
            elif r < 0.42:
                h = "md5-dos2unix:" + h  # same value under another algorithm name: a different hash
            if rng.random() < 0.1:
                meta = None
            out[k] = (h, meta)
        # kind changes: a file becomes a directory with children / a directory becomes a file
        for k in list(out):
            if rng.random() < 0.08 and len(k) < 4:
                hv = out.pop(k)
                out[(*k, "inner")] = hv
                out[(*k, "inner2")] = (rng.choice(pool), (1, False, None, None))
        dirs = sorted({k[:i] for k in out for i in range(1, len(k))})
        for dk in dirs:
            if rng.random() < 0.08:
                for f in [f for f in out if f[: len(dk)] == dk]:
                    del out[f]
                if not any(dk[:i] in out for i in range(1, len(dk))):
                    out[dk] = (rng.choice(pool), (2, False, None, None))
        # a moved sub-tree / file (rename candidates)
        for k in list(out):
            if rng.random() < 0.1 and out[k][0]:
                hv = out.pop(k)
                nk = (*k[:-1], k[-1] + "-moved")
                out[nk] = hv
        if rng.random() < 0.5:
            nk = (gen.name(rng, odd=0.2) + "-new",)
            out[nk] = (rng.choice(pool), (1, False, None, None))
        # drop files that ended up below another file
        for k in sorted(out, key=len):
            if any(k[:i] in out for i in range(1, len(k))):
                out.pop(k, None)
        return out

    def build_index(rng, fmap, styles=None):
        """-> (DataIndex, flat {key: (hash_name_value|None, meta_tuple|None)} reference view incl. dir entries)"""
        idx = DataIndex()
        flat = {}
        dirs = sorted({k[:i] for k in fmap for i in range(1, len(k))})
        used = {}
        for dk in dirs:
            style = (styles or {}).get(dk) or rng.choice(["implicit", "explicit", "explicit", "hashed"])
            below = {f[len(dk):]: fmap[f] for f in fmap if f[: len(dk)] == dk}
            if style == "hashed" and not all(v[0] for v in below.values()):
                style = "explicit"
            used[dk] = style
            if style == "implicit":
                continue
            hi = None
            if style == "hashed":
                oid = canonical_dir_oid({"/".join(k): v[0] if ":" in v[0] else "md5:" + v[0] for k, v in below.items()})
                hi = HashInfo("md5", oid)
            idx[dk] = DataIndexEntry(key=dk, meta=Meta(isdir=True), hash_info=hi, loaded=True)
            flat[dk] = (("md5", hi.value) if hi else None, ("dir",))
        for k, (h, meta) in fmap.items():
            m = Meta(size=meta[0], isexec=meta[1], etag=meta[2], mtime=meta[3]) if meta is not None else None
            hname, hval = (h.split(":", 1) if h and ":" in h else ("md5", h))
            hi = HashInfo(hname, hval) if h else None
            idx[k] = DataIndexEntry(key=k, meta=m, hash_info=hi)
            # info() gives a hash-bearing entry without Meta a default one
            mt = ("file", meta[0], meta[1], meta[2], meta[3]) if meta is not None else (("file", None, False, None, None) if h else None)
            flat[k] = ((hname, hval) if h else None, mt)
        return idx, flat, used

    def hdiff(a, b):
        if not a and b:
            return ADD
        if a and not b:
            return DELETE
        if a and b and a != b:
            return MODIFY
        return UNCHANGED

    def mdiff(a, b, cmpkey):
        if a is None and b is not None:
            return ADD
        if a is not None and b is None:
            return DELETE
        if a is None and b is None:
            return UNCHANGED
        if cmpkey == "etag":
            ka = a[3] if a[0] == "file" else None
            kb = b[3] if b[0] == "file" else None
            return MODIFY if ka != kb else UNCHANGED
        if cmpkey:
            ka = (a[0] == "dir", a[2] if a[0] == "file" else False)
            kb = (b[0] == "dir", b[2] if b[0] == "file" else False)
            return MODIFY if ka != kb else UNCHANGED
        return MODIFY if a != b else UNCHANGED

    def classify(o, n, hash_only, meta_only, cmpkey):
        oh, om = o if o is not None else (None, None)
        nh, nm = n if n is not None else (None, None)
        hd, md = hdiff(oh, nh), mdiff(om, nm, cmpkey)
        if meta_only:
            return md
        if hash_only:
            return hd
        if o is None:
            return ADD
        if n is None:
            return DELETE
        if hd == UNCHANGED and md == UNCHANGED:
            return UNCHANGED
        if om is None and nm is None:
            return hd
        if not oh and not nh:
            return md
        return MODIFY

    def pe(e):
        """projection of an entry object as carried by a Change"""
        if e is None:
            return None
        h = (e.hash_info.name, e.hash_info.value) if e.hash_info else None
        if e.meta is None:
            m = None
        elif e.meta.isdir:
            m = ("dir",)
        else:
            m = ("file", e.meta.size, e.meta.isexec, e.meta.etag, e.meta.mtime)
        return (h, m)

    def cmp_key_fn(meta):
        if meta is None:
            return meta
        return (meta.isdir, meta.isexec)

    def cmp_key_etag(meta):
        # a key that maps a real Meta to None when the field is unset (what push uses for cloud checksums)
        return meta.etag if meta else None

    def under(k, roots):
        return any(k[: len(r)] == r for r in roots)

    def run_diff(a, b, **opts):
        return list(diff(a, b, **opts))

    def ch_key(c):
        if c.typ == RENAME:
            return None
        e = c.new if c.typ == ADD else c.old if c.typ == DELETE else (c.old or c.new)
        return e.key

    for case, rng in ctx.cases(ctx.plan["n"]):

        def one(case=case, rng=rng):
            base, pool = gen_base(rng)
            fa = side_from(rng, base, pool, True)
            mode = rng.random()
            if mode < 0.08:
                fb = dict(fa)
            else:
                fb = side_from(rng, base, pool, True)
            same_styles = None
            if mode < 0.08 and rng.random() < 0.5:
                same_styles = {dk: rng.choice(["implicit", "explicit", "hashed"]) for dk in {k[:i] for k in fa for i in range(1, len(k))}}
            ia, flat_a, sty_a = build_index(rng, fa, same_styles)
            ib, flat_b, sty_b = build_index(rng, fb, same_styles)
            none_side = None
            if rng.random() < 0.06:
                none_side = rng.choice(["old", "new"])
                res.count("one_side_none")
            A = None if none_side == "old" else ia
            B = None if none_side == "new" else ib
            FA = {} if none_side == "old" else flat_a
            FB = {} if none_side == "new" else flat_b
            if any((k in {x[:i] for x in fb for i in range(1, len(x))}) for k in fa) or any((k in {x[:i] for x in fa for i in range(1, len(x))}) for k in fb):
                res.count("kind_change_pairs")

            for _rep in range(4):
                with_unchanged = rng.random() < 0.5
                hash_only = rng.random() < 0.4
                meta_only = (not hash_only) and rng.random() < 0.25
                with_renames = (not meta_only) and rng.random() < 0.4
                shallow = rng.random() < 0.15
                use_cmp = rng.choice([False, False, False, True, "etag"])
                roots = None
                if rng.random() < 0.15:
                    cands = sorted({k[:i] for k in list(FA) + list(FB) for i in range(1, len(k) + 1)})
                    if cands:
                        r1 = rng.choice(cands)
                        roots = [r1]
                        others = [c for c in cands if c[: len(r1)] != r1 and r1[: len(c)] != c]
                        if others and rng.random() < 0.5:
                            roots.append(rng.choice(others))
                        # a root below a file entry is not a position in the tree
                        if any(any(r[:i] in FA and FA[r[:i]][1] and FA[r[:i]][1][0] == "file" or r[:i] in FB and FB[r[:i]][1] and FB[r[:i]][1][0] == "file"
                                   for i in range(1, len(r))) for r in roots):
                            roots = None
                opts = {"with_unchanged": with_unchanged, "hash_only": hash_only, "meta_only": meta_only, "with_renames": with_renames, "shallow": shallow}
                if use_cmp:
                    opts["meta_cmp_key"] = cmp_key_etag if use_cmp == "etag" else cmp_key_fn
                    res.count("meta_cmp_key_diffs")
                    if use_cmp == "etag":
                        res.count("meta_cmp_key_projecting_to_none_diffs")
                if roots:
                    opts["roots"] = roots
                    res.count("roots_diffs")
                res.evaluated()
                res.count("diffs")
                if FA != FB:
                    res.nontrivial(sorted(FA.items(), key=repr), sorted(FB.items(), key=repr), sorted(opts.items(), key=repr))
                detail = {"old": {"/".join(k): v for k, v in FA.items()}, "new": {"/".join(k): v for k, v in FB.items()},
                          "opts": {k: (v if k != "meta_cmp_key" else ("etag" if use_cmp == "etag" else "isdir+isexec")) for k, v in opts.items()}}
                res.sample({"old_keys": len(FA), "new_keys": len(FB), "opts": detail["opts"]})

                # rebuild fresh indexes for every diff: info() may decorate entries
                a2 = None if A is None else build_index(rng, fa, sty_a)[0]
                b2 = None if B is None else build_index(rng, fb, sty_b)[0]
                got = run_diff(a2, b2, **opts)

                # ---- reference
                keys = set(FA) | set(FB)
                if roots:
                    keys = {k for k in keys if under(k, roots)}
                ref = {k: classify(FA.get(k), FB.get(k), hash_only, meta_only, use_cmp) for k in keys}
                # ---- reported
                seen = {}
                renames = []
                for c in got:
                    if c.typ == RENAME:
                        renames.append(c)
                        continue
                    k = ch_key(c)
                    seen.setdefault(k, []).append(c.typ)
                dup = [k for k, v in seen.items() if len(v) > 1]
                if dup:
                    res.violation("key-reported-twice", f"{dup[:2]} reported more than once", case=case, detail=detail)
                    continue
                if with_renames and a2 is not None and b2 is not None:
                    res.count("with_renames_diffs")
                    res.count("renames_seen", len(renames))
                    used_old, used_new = set(), set()
                    bad = False
                    for c in renames:
                        ok_, nk = c.old.key, c.new.key
                        if not c.old.hash_info or c.old.hash_info != c.new.hash_info:
                            res.violation("rename-of-different-hashes", f"rename {ok_} -> {nk} pairs entries whose hashes differ or are empty", case=case, detail=detail)
                            bad = True
                        if ok_ in used_old or nk in used_new or ok_ in seen or nk in seen:
                            res.violation("rename-duplicates-key", f"{ok_} or {nk} appears in more than one change", case=case, detail=detail)
                            bad = True
                        used_old.add(ok_)
                        used_new.add(nk)
                    if bad:
                        continue
                    # fold renames back into an add + a delete for the comparison with the flat reference
                    for c in renames:
                        seen[c.old.key] = [DELETE]
                        seen[c.new.key] = [ADD]
                    # maximality: no remaining add/delete pair with the same truthy hash
                    if not shallow:
                        rem_add = {}
                        for c in got:
                            if c.typ == ADD and c.new is not None and c.new.hash_info:
                                rem_add.setdefault((c.new.hash_info.name, c.new.hash_info.value), []).append(c.new.key)
                        for c in got:
                            if c.typ == DELETE and c.old is not None and c.old.hash_info:
                                hk = (c.old.hash_info.name, c.old.hash_info.value)
                                if hk in rem_add:
                                    res.violation("matching-pair-left-unpaired", f"delete {c.old.key} and add {rem_add[hk][0]} carry the same hash but were not paired",
                                                  case=case, detail=detail)
                                    break
                elif renames:
                    res.violation("rename-without-request", "RENAME reported without with_renames", case=case, detail=detail)
                    continue
                rep = {k: v[0] for k, v in seen.items()}
                res.count("changes_classified", len(rep))
                # entries carried by a change must be the entries of that key
                if shallow:
                    res.count("shallow_diffs")
                    for c in got:
                        if c.typ == RENAME:
                            continue
                        want = classify(pe(c.old), pe(c.new), hash_only, meta_only, use_cmp)
                        if want != c.typ:
                            res.violation("misclassified/shallow", f"{ch_key(c)} reported {c.typ}; the two entries the change carries classify as {want}",
                                          case=case, detail=detail)
                            break
                    # what shallow may leave out lies inside a hashed entry: a key that exists on one side only, with no hashed entry
                    # above it on that side, is a change that has to show
                    def covered(F, k):
                        return any(k[:i] in F and F[k[:i]][0] for i in range(len(k)))

                    for k in sorted(keys):
                        if (k in FA) == (k in FB):
                            continue
                        res.count("shallow_one_sided_keys_checked")
                        if not covered(FA if k in FA else FB, k) and k not in rep and (with_unchanged or ref.get(k) != UNCHANGED):
                            res.violation("change-hidden/shallow/not-inside-a-hashed-entry", f"{'/'.join(k)} exists on one side only and no entry above it on that side carries a hash, "
                                          "yet the shallow diff does not report it", case=case, detail={**detail, "reported": sorted(("/".join(k2), t2) for k2, t2 in rep.items())[:40], "styles": [str(sty_a), str(sty_b)]})
                            break
                    continue
                shortcut = hash_only and not with_unchanged
                expected = {k: t for k, t in ref.items() if with_unchanged or t != UNCHANGED}
                if shortcut:
                    res.count("shortcut_diffs")
                    extra = {k: t for k, t in rep.items() if expected.get(k) != t}
                    if extra:
                        k = sorted(extra)[0]
                        res.violation("misclassified/shortcut", f"{k} reported {extra[k]}, reference {ref.get(k)}", case=case, detail=detail)
                        continue
                    hidden = [k for k in expected if k not in rep]
                    for k in hidden:
                        cover = [k[:i] for i in range(1, len(k)) if FA.get(k[:i]) and FB.get(k[:i]) and FA[k[:i]][0] and FA[k[:i]][0] == FB[k[:i]][0]
                                 and FA[k[:i]][0][1].endswith(".dir")]
                        is_file = (FA.get(k) or FB.get(k))[1] is None or (FA.get(k) or FB.get(k))[1][0] == "file"
                        is_file_a = k in FA and (FA[k][1] is None or FA[k][1][0] == "file")
                        is_file_b = k in FB and (FB[k][1] is None or FB[k][1][0] == "file")
                        if not cover:
                            res.violation("change-hidden/not-under-unchanged-hashed-dir", f"{k} ({expected[k]}) not reported and not below an unchanged hashed directory",
                                          case=case, detail=detail)
                            break
                        if is_file_a or is_file_b:
                            res.violation("change-hidden/file-entry-under-skipped-branch", f"file change {k} ({expected[k]}) hidden by the unchanged-sub-tree shortcut",
                                          case=case, detail=detail)
                            break
                        res.count("hidden_representational_dir_differences")
                        _ = is_file
                    if any(FA.get(k) and FB.get(k) and FA[k][0] and FA[k][0] == FB[k][0] and FA[k][0][1].endswith(".dir") for k in keys):
                        res.count("shortcut_branches_skipped")
                    continue
                if rep != expected:
                    missing = sorted(k for k in expected if k not in rep)
                    extra = sorted(k for k in rep if k not in expected)
                    wrong = sorted(k for k in rep if k in expected and rep[k] != expected[k])
                    if missing:
                        k = missing[0]
                        res.violation(f"key-not-reported/{expected[k]}", f"{k} should be reported as {expected[k]}", case=case, detail=detail)
                    elif extra:
                        k = extra[0]
                        res.violation(f"key-reported-without-entry-or-change/{rep[k]}", f"{k} reported {rep[k]}, reference {ref.get(k)}", case=case, detail=detail)
                    else:
                        k = wrong[0]
                        res.violation(f"misclassified/{expected[k]}-as-{rep[k]}", f"{k} reported {rep[k]}, reference {expected[k]}", case=case, detail=detail)
                    continue

                # ---- metamorphic relations on the implementation's own outputs
                if rng.random() < 0.3 and a2 is not None and not with_renames:
                    res.count("self_diffs")
                    a3 = build_index(rng, fa, sty_a)[0]
                    a4 = build_index(rng, fa, sty_a)[0]
                    o2 = dict(opts)
                    self_changes = [c for c in run_diff(a3, a4, **o2) if c.typ != UNCHANGED]
                    if self_changes:
                        res.violation("self-diff-shows-change", f"an index diffed with itself reports {self_changes[0].typ} {ch_key(self_changes[0])}", case=case, detail=detail)
                if rng.random() < 0.3 and not with_renames:
                    res.count("swap_relations")
                    a3 = None if A is None else build_index(rng, fa, sty_a)[0]
                    b3 = None if B is None else build_index(rng, fb, sty_b)[0]
                    back = {}
                    for c in run_diff(b3, a3, **opts):
                        back[ch_key(c)] = c.typ
                    mirror = {ADD: DELETE, DELETE: ADD, MODIFY: MODIFY, UNCHANGED: UNCHANGED}
                    if {k: mirror[t] for k, t in back.items()} != rep:
                        res.violation("swap-does-not-mirror", "diff(b, a) is not diff(a, b) with added and deleted exchanged", case=case, detail=detail)

        def simple_check(got, FA, FB, with_unchanged, hash_only, meta_only, tag, detail):
            """flat comparison for option sets without renames / shallow / roots / shortcut"""
            ref = {k: classify(FA.get(k), FB.get(k), hash_only, meta_only, False) for k in set(FA) | set(FB)}
            expected = {k: t for k, t in ref.items() if with_unchanged or t != UNCHANGED}
            rep = {}
            for c in got:
                k = ch_key(c)
                if k in rep:
                    res.violation("key-reported-twice" + tag, f"{k} reported more than once", case=case, detail=detail)
                    return False
                rep[k] = c.typ
            if rep != expected:
                missing = sorted(k for k in expected if k not in rep)
                extra = sorted(k for k in rep if k not in expected)
                wrong = sorted(k for k in rep if k in expected and rep[k] != expected[k])
                if missing:
                    res.violation(f"key-not-reported/{expected[missing[0]]}" + tag, f"{missing[0]} should be reported as {expected[missing[0]]}", case=case, detail=detail)
                elif extra:
                    res.violation(f"key-reported-without-entry-or-change/{rep[extra[0]]}" + tag, f"{extra[0]} reported {rep[extra[0]]}", case=case, detail=detail)
                else:
                    res.violation(f"misclassified/{expected[wrong[0]]}-as-{rep[wrong[0]]}" + tag, f"{wrong[0]}", case=case, detail=detail)
                return False
            return True

        def inplace(case=case, rng=rng):
            """history on ONE index object: diff, edit the index in place (new keys through new intermediate directories,
            deletions, replaced entries), diff again"""
            base, pool = gen_base(rng)
            fa, fb = side_from(rng, base, pool, True), side_from(rng, base, pool, True)
            sty = lambda fm: {dk: rng.choice(["implicit", "explicit"]) for dk in {k[:i] for k in fm for i in range(1, len(k))}}  # noqa: E731
            ia, flat_a, _sa = build_index(rng, fa, sty(fa))
            ib, flat_b, _sb = build_index(rng, fb, sty(fb))
            for rnd in range(rng.randrange(2, 5)):
                with_unchanged = rng.random() < 0.5
                hash_only = with_unchanged and rng.random() < 0.3
                meta_only = (not hash_only) and rng.random() < 0.2
                opts = {"with_unchanged": with_unchanged, "hash_only": hash_only, "meta_only": meta_only}
                detail = {"old": {"/".join(k): v for k, v in flat_a.items()}, "new": {"/".join(k): v for k, v in flat_b.items()}, "opts": opts, "round": rnd}
                res.evaluated()
                res.count("diffs")
                res.count("inplace_history_diffs")
                res.nontrivial("inplace", sorted(flat_a.items(), key=repr), sorted(flat_b.items(), key=repr), rnd, sorted(opts.items()))
                swap = rng.random() < 0.3
                got = run_diff(ib, ia, **opts) if swap else run_diff(ia, ib, **opts)
                if not simple_check(got, flat_b if swap else flat_a, flat_a if swap else flat_b, with_unchanged, hash_only, meta_only,
                                    "/index-edited-in-place" if rnd else "", detail):
                    return
                if rng.random() < 0.5:
                    # listings are looked at too (what a filesystem view over the index does)
                    for dk in [()] + sorted({k[:i] for k in flat_a for i in range(1, len(k))})[:3]:
                        try:
                            list(ia.ls(dk, detail=rng.random() < 0.5))
                        except KeyError:
                            pass
                # ---- edit `ia` in place
                victim_side, vflat = (ia, flat_a) if rng.random() < 0.8 else (ib, flat_b)
                file_keys = sorted(k for k, v in vflat.items() if v[1] is None or v[1][0] == "file")
                dir_keys = [()] + sorted({k[:i] for k in file_keys for i in range(1, len(k))})
                for _ in range(rng.randrange(1, 4)):
                    parent = rng.choice(dir_keys)
                    nk = (*parent, *[gen.name(rng, odd=0.1) + "-n" for _ in range(rng.randrange(1, 3))], "leaf%d" % rng.randrange(99))
                    if any(nk[:i] in vflat and vflat[nk[:i]][1] != ("dir",) for i in range(1, len(nk) + 1)):
                        continue
                    h = rng.choice(pool)
                    victim_side[nk] = DataIndexEntry(key=nk, meta=Meta(size=1), hash_info=HashInfo("md5", h))
                    vflat[nk] = (("md5", h), ("file", 1, False, None, None))
                    res.count("inplace_adds_through_new_directories")
                for k in rng.sample(file_keys, min(len(file_keys), rng.randrange(0, 3))):
                    if rng.random() < 0.5:
                        del victim_side[k]
                        del vflat[k]
                    else:
                        h = "%032x" % rng.getrandbits(64)
                        victim_side[k] = DataIndexEntry(key=k, meta=Meta(size=7), hash_info=HashInfo("md5", h))
                        vflat[k] = (("md5", h), ("file", 7, False, None, None))

        def unknown(case=case, rng=rng):
            """a directory that cannot be loaded on one side, with_unknown=True: which keys are reported as not comparable must not
            depend on whether the comparison is restricted to hashes or to metadata"""
            import os

            from dvc_data.index import ObjectStorage

            from .. import env

            d = ctx.fresh("u")
            odb = env.local_odb(os.path.join(d, "odb"))
            full = DataIndex()
            names = [gen.name(rng, odd=0.2) for _ in range(rng.randrange(1, 5))]
            top = gen.name(rng) + "-dir"
            for i, nm in enumerate(dict.fromkeys(names)):
                k = (top, nm) if rng.random() < 0.7 else (top, "sub", nm)
                full[k] = DataIndexEntry(key=k, meta=Meta(size=i + 1), hash_info=HashInfo("md5", "%032x" % rng.getrandbits(64)))
            full[("plain",)] = DataIndexEntry(key=("plain",), meta=Meta(size=3), hash_info=HashInfo("md5", "%032x" % 7))
            broken = DataIndex()
            broken.storage_map.add_cache(ObjectStorage((), odb))
            broken[(top,)] = DataIndexEntry(key=(top,), meta=Meta(isdir=True), hash_info=HashInfo("md5", "%032x.dir" % rng.getrandbits(64)))
            broken[("plain",)] = DataIndexEntry(key=("plain",), meta=Meta(size=rng.choice([3, 4])), hash_info=HashInfo("md5", "%032x" % rng.choice([7, 8])))
            # siblings on both sides of the unloadable directory in iteration order (a file and an explicit directory each), differing or not
            outside = {}
            for sib in ("!" + top, "~" + top):
                for k in ((sib,), (sib + "-d", "x"), (sib + "-d", "y", "z")):
                    hs = [rng.choice([11, 12]) for _ in range(2)]
                    if rng.random() < 0.2:
                        hs[rng.randrange(2)] = None  # one-sided
                    for ix, h in zip((full, broken), hs):
                        if h is not None:
                            ix[k] = DataIndexEntry(key=k, meta=Meta(size=h), hash_info=HashInfo("md5", "%032x" % h))
                    outside[k] = tuple(hs)  # (in full, in broken)
            broken_side = rng.choice(["old", "new"])
            modes = {"default": {}, "hash_only": {"hash_only": True, "with_unchanged": True}, "meta_only": {"meta_only": True},
                     "hash_only/shortcut": {"hash_only": True}}
            seen = {}
            for mname, mo in modes.items():
                res.evaluated()
                res.count("diffs")
                res.count("unknown_directory_diffs")
                a, b = (broken, full) if broken_side == "old" else (full, broken)
                got = run_diff(a, b, with_unknown=True, **mo)
                seen[mname] = sorted(ch_key(c) for c in got if c.typ == "unknown")
                # absolute rule: whatever is not below the unloadable directory is comparable and must be compared (C08: classified exactly
                # as a key-by-key comparison would) - one directory that cannot be read must not make its siblings "unknown"
                stray = [k for k in seen[mname] if k[:1] != (top,)]
                res.count("unknown_diff_outside_keys_judged", len(outside))
                if stray:
                    res.violation("comparable-key-reported-unknown",
                                  f"{mname}: with directory {top!r} unloadable on the {broken_side} side, {len(stray)} key(s) outside it are reported 'unknown': {['/'.join(k) for k in stray[:4]]}",
                                  case=case, detail={"mode": mname, "stray": ["/".join(k) for k in stray], "broken_side": broken_side})
                if mname == "default":
                    by = {}
                    for c in got:
                        if c.typ != RENAME and ch_key(c) in outside:
                            by.setdefault(ch_key(c), []).append(c.typ)
                    for k in outside:
                        hf, hb = outside[k]
                        ea, eb = (hb, hf) if broken_side == "old" else (hf, hb)
                        want = [] if ea == eb else [ADD] if ea is None else [DELETE] if eb is None else [MODIFY]
                        if [t for t in by.get(k, []) if t != UNCHANGED] != want:
                            res.violation("sibling-of-unloadable-directory-misclassified",
                                          f"with directory {top!r} unloadable on the {broken_side} side, key {'/'.join(k)} is reported {by.get(k)} instead of {want}",
                                          case=case, detail={"key": "/".join(k), "got": by.get(k), "want": want, "broken_side": broken_side})
            res.nontrivial("unknown", broken_side, sorted(k for k, _ in full.iteritems()))
            res.count("keys_reported_unknown", len(seen["default"]))
            if len({tuple(v) for v in seen.values()}) != 1:
                res.violation("not-comparable-keys-depend-on-comparison-mode",
                              f"with a directory that cannot be loaded on the {broken_side} side, the keys reported 'unknown' differ between modes: { {m: len(v) for m, v in seen.items()} }",
                              case=case, detail={"unknown_by_mode": {m: ["/".join(k) for k in v] for m, v in seen.items()}, "broken_side": broken_side})
            ctx.drop(d)

        def two_handles(case=case, rng=rng):
            """an SQLite-backed index open through two handles: one writes and commits, the other (long-lived) is diffed before and after"""
            import os

            d = ctx.fresh("th")
            dbp = os.path.join(d, "idx.db")
            base, pool = gen_base(rng)
            fa, fb = side_from(rng, base, pool, True), side_from(rng, base, pool, True)
            sty = lambda fm: {dk: rng.choice(["implicit", "explicit"]) for dk in {k[:i] for k in fm for i in range(1, len(k))}}  # noqa: E731
            mem_a, flat_a, _sa = build_index(rng, fa, sty(fa))
            ref, flat_b, _sb = build_index(rng, fb, sty(fb))
            w = DataIndex.open(dbp)
            for k_, e_ in mem_a.iteritems():
                w[k_] = e_
            w.commit()
            # (the persisted form of an entry's metadata has no inode / mtime)
            flat_a = {k_: (h_, (mt_[:4] + (None,)) if (mt_ is not None and mt_[0] == "file") else mt_) for k_, (h_, mt_) in flat_a.items()}
            r = DataIndex.open(dbp)
            for rnd in range(3):
                opts = {"with_unchanged": rng.random() < 0.6}
                res.evaluated()
                res.count("diffs")
                res.count("two_handle_diffs")
                res.nontrivial("two-handles", sorted(flat_a.items(), key=repr), sorted(flat_b.items(), key=repr), rnd)
                detail = {"old": {"/".join(k): v for k, v in flat_a.items()}, "new": {"/".join(k): v for k, v in flat_b.items()}, "round": rnd}
                if not simple_check(run_diff(r, ref, **opts), flat_a, flat_b, opts["with_unchanged"], False, False,
                                    "/changed-through-another-handle" if rnd else "", detail):
                    break
                # the writer changes and deletes file entries, and commits
                file_keys = sorted(k for k, v in flat_a.items() if v[1] is None or v[1][0] == "file")
                for k in rng.sample(file_keys, min(len(file_keys), rng.randrange(1, 4))):
                    if rng.random() < 0.4 and len(file_keys) > 1:
                        del w[k]
                        del flat_a[k]
                    else:
                        h = "%032x" % rng.getrandbits(64)
                        w[k] = DataIndexEntry(key=k, meta=Meta(size=9), hash_info=HashInfo("md5", h))
                        flat_a[k] = (("md5", h), ("file", 9, False, None, None))
                w.commit()
            w.close()
            r.close()
            ctx.drop(d)

        def late_storage(case=case, rng=rng):
            """an index holding a directory as an unloaded entry is diffed once before anything says where its objects are stored, then the
            storage is attached and the same handles are diffed again: the directory's files are there to compare now"""
            import os

            from dvc_data.hashfile.tree import Tree
            from dvc_data.index import ObjectStorage

            from .. import env

            d = ctx.fresh("ls")
            odb = env.local_odb(os.path.join(d, "odb"))
            top = gen.name(rng) + "-dir"
            t = Tree()
            full = DataIndex()
            fkeys = []
            for i in range(rng.randrange(1, 6)):
                rel = (gen.name(rng, odd=0.2) + str(i),) if rng.random() < 0.7 else ("sub", gen.name(rng, odd=0.2) + str(i))
                h = "%032x" % rng.getrandbits(64)
                t.add(rel, Meta(size=i + 1), HashInfo("md5", h))
                full[(top, *rel)] = DataIndexEntry(key=(top, *rel), meta=Meta(size=i + 1), hash_info=HashInfo("md5", h))
                fkeys.append((top, *rel))
            t.digest()
            odb.add(t.path, t.fs, t.oid)
            lazy = DataIndex()
            lazy[(top,)] = DataIndexEntry(key=(top,), meta=Meta(isdir=True), hash_info=t.hash_info)
            side = rng.choice(["old", "new"])
            a, b = (lazy, full) if side == "old" else (full, lazy)
            res.evaluated()
            res.count("diffs")
            res.count("diffs_before_and_after_the_storage_is_attached")
            run_diff(a, b, hash_only=True, with_unchanged=True)
            if rng.random() < 0.5:
                list(lazy.ls((top,), detail=False))
            lazy.storage_map.add_cache(ObjectStorage((), odb))
            got = run_diff(a, b, hash_only=True, with_unchanged=True)
            res.nontrivial("late-storage", side, sorted(fkeys))
            bad = sorted(ch_key(c) for c in got if ch_key(c) in fkeys and c.typ != UNCHANGED)
            missing = sorted(set(fkeys) - {ch_key(c) for c in got})
            if bad or missing:
                res.violation("misclassified/after-storage-was-attached", f"after the storage was attached to the index holding {top} unloaded ({side} side), its files compare as "
                              f"{[(k, [c.typ for c in got if ch_key(c) == k]) for k in bad[:2]]} missing={missing[:2]} instead of unchanged", case=case, detail={"side": side})
            ctx.drop(d)

        if case % 40 == 17:
            ctx.guard(case, late_storage)
        elif case % 40 == 13:
            ctx.guard(case, two_handles)
        elif case % 10 == 3:
            ctx.guard(case, inplace)
        elif case % 20 == 7:
            ctx.guard(case, unknown)
        else:
            ctx.guard(case, one)


