"""C12 - status is exact and the remote index never invents objects."""

import os

from .. import env, gen
from ..monitors import MethodPatch
from ..oracle import DIR_SUFFIX, H, canonical_dir_bytes, list_store, parse_dir_bytes
from ..transfer_lab import Scenario, UploadFaults

RULE = (
    "(a) case = store of class local / base-over-local / remote-like (small listing page so that the size estimate on prefix "
    "'00' routes queries to both the per-object and the traversal strategy) holding files, mined '00' objects and directory "
    "objects; query of 2-60 identifiers mixing present, absent and directory ids, shallow or expanded, jobs 1/4; status() and "
    "compare_status(check_deleted True/False) compared with independent os.walk listings.  (b,c) case = history of 4-12 steps "
    "sharing one ObjectDBIndex: closed transfer (fault-free or with a failing subset), external deletion of a file or directory "
    "object, status query (shallow or expanded), compare_status, expanded transfer (directories only, shallow=False), a directory object vanishing from the source right after the status query (listing still in a separate cache); optionally a second unrelated store with its own index alive in the same process (nothing is sent to it: its index must stay empty); after every dvc-data step the index content is checked against the upload log and the "
    "directory objects present.  non-trivial = query with both existing and missing ids / history with a failure or a "
    "deletion; distinct = hash of the case"
)
ASSUMPTIONS = [
    "remote emulated by a non-local FileSystem over local disk (base HashFileDB code paths: both oids_exist strategies)",
    "expanded queries only name directory ids that cache_odb can load",
    "'delivered' = present initially or seen as a successful upload by the monitor on the destination filesystem",
]
MONITORS = ("status answers vs os.walk listing; FaultyFS counters prove both lookup strategies ran; wrappers on ObjectDBIndex.update/clear "
            "log what was indexed; index content vs upload log + present directory objects after every step")
REQUIRED_COUNTERS = ["histories_ending_with_the_handles_taking_turns", "queries_of_64_or_more_ids", "status_queries_from_inside_an_abandoned_index_walk", "compare_status_calls_relying_on_the_default", "index_handles_closed_and_reused", "histories_with_an_empty_directory", "stores_opened_through_non_canonical_path", "stores_of_another_algorithm", "many_indexed_directories_cases", "histories_with_second_store_index", "second_store_queries", "expanded_transfer_steps", "dir_vanished_mid_transfer_steps", "expanded_status_queries_with_index", "handle_wrote_before_foreign_writes", "source_lost_files", "unprotected_valid_objects", "two_handle_histories", "status_queries", "strategy/per-object-exists", "strategy/traverse", "compare_status_calls", "expanded_queries",
                     "histories", "history_steps", "index_checks", "index_updates_seen", "index_clears_seen", "external_deletions",
                     "failed_transfer_steps", "indexed_dir_exists_checked", "store/local", "store/remote", "store/base"]


def run_shard(ctx):
    from dvc_data.hashfile.db.index import ObjectDBIndex
    from dvc_data.hashfile.status import compare_status, status
    from dvc_data.hashfile.transfer import transfer

    from ..monitors import FaultyFS

    res = ctx.res

    def put(root, oid, data, mode=0o444):
        p = os.path.join(root, oid[:2], oid[2:])
        os.makedirs(os.path.dirname(p), exist_ok=True)
        with open(p, "wb") as f:
            f.write(data)
        os.chmod(p, mode)

    def mk_store(rng, root, cls):
        if cls == "remote":
            fs = FaultyFS(page_size=rng.choice([4, 10, 25, 100, None]), jobs=rng.choice([1, 4]))
            return env.remote_odb(root, fs=fs), fs
        return env.odb_of_class(cls, root), None

    def exact(case=0, rng=None):
        d = ctx.fresh("q")
        cls = rng.choice(["remote", "remote", "local", "base"])
        res.count(f"store/{cls}")
        root, croot, sroot = os.path.join(d, "store"), os.path.join(d, "treecache"), os.path.join(d, "src")
        # the store may be one of another algorithm (objects named by sha256; no directory objects there), and may be opened through
        # a legal non-canonical spelling of its path
        algo = "sha256" if rng.random() < 0.15 else "md5"
        spelling = rng.choice(["canonical"] * 4 + ["trailing-slash", "dot", "double-slash"])
        opened = {"canonical": root, "trailing-slash": root + "/", "dot": d + "/./store", "double-slash": d + "//store"}[spelling]
        if spelling != "canonical":
            res.count("stores_opened_through_non_canonical_path")
        if algo != "md5":
            res.count("stores_of_another_algorithm")
        if cls == "remote":
            ffs = FaultyFS(page_size=rng.choice([4, 10, 25, 100, None]), jobs=rng.choice([1, 4]))
            odb = env.remote_odb(opened, fs=ffs, hash_name=algo)
        else:
            odb, ffs = env.odb_of_class(cls, opened, hash_name=algo), None
        cache = env.local_odb(croot)
        blobs = {}
        for _ in range(rng.randrange(2, 25)):
            b = gen.small_content(rng) + bytes([rng.randrange(256)])
            blobs[H(algo, b)] = b
        for _ in range(rng.choice([0, 0, 1, 2, 4, 8]) if algo == "md5" else 0):
            b = gen.mined_00(rng)
            blobs[H("md5", b)] = b
        dirs = {}
        foids = sorted(blobs)
        for _ in range(rng.randrange(0, 4) if algo == "md5" else 0):
            listing = {f"{gen.name(rng, odd=0.2)}{i}": o for i, o in enumerate(rng.sample(foids, rng.randrange(1, min(6, len(foids)) + 1)))}
            raw = canonical_dir_bytes(listing)
            dirs[H("md5", raw) + DIR_SUFFIX] = (listing, raw)
        present = set()
        if cls != "remote" and rng.random() < 0.5:
            # the querying handle has itself written to the store before; everything else arrives through other hands
            first = gen.small_content(rng) + b"own-write"
            fp = os.path.join(d, "own-write")
            with open(fp, "wb") as f:
                f.write(first)
            odb.add(fp, env.localfs(), H(algo, first))
            blobs[H(algo, first)] = first
            present.add(H(algo, first))
            res.count("handle_wrote_before_foreign_writes")
        if rng.random() < 0.4:
            blobs[H(algo, b"")] = b""  # the empty file's object is an object like any other
        if rng.random() < 0.15:
            # enough objects for a query to be split among workers (and not to divide evenly among them)
            for i_ in range(rng.randrange(70, 150)):
                b_ = b"one of many %d %d" % (case, i_)
                blobs[H(algo, b_)] = b_
            res.count("cases_with_many_objects")
        for o, b in blobs.items():
            if o in present:
                continue
            if rng.random() < 0.6:
                # valid objects that are not write-protected (written by another tool, or protect failed on that filesystem)
                unprot = rng.random() < 0.3
                put(root, o, b, 0o644 if unprot else 0o444)
                if unprot:
                    res.count("unprotected_valid_objects")
                present.add(o)
        for o, (_l, raw) in dirs.items():
            put(croot, o, raw)
            if rng.random() < 0.6:
                put(root, o, raw)
                present.add(o)
        os.makedirs(root, exist_ok=True)
        # second store for compare_status
        src = env.local_odb(sroot, hash_name=algo)
        src_present = set()
        for o, b in blobs.items():
            if rng.random() < 0.6:
                put(sroot, o, b)
                src_present.add(o)
        for o, (_l, raw) in dirs.items():
            if rng.random() < 0.8:
                put(sroot, o, raw)
                src_present.add(o)
        os.makedirs(sroot, exist_ok=True)

        for _q in range(3):
            universe = sorted(blobs) + sorted(dirs) + [H(algo, b"absent%d" % i) for i in range(6)]
            q = rng.sample(universe, min(len(universe), rng.choice([2, 3, 5, 10, 30, 60] + ([67, 101, 131, len(universe)] * 2 if len(universe) > 66 else []))))
            if len(q) >= 64:
                res.count("queries_of_64_or_more_ids")
            expanded = rng.random() < 0.35
            ids = {env.HI(algo, o) for o in q}
            denoted = set(q)
            if expanded:
                res.count("expanded_queries")
                for o in q:
                    if o in dirs:
                        denoted |= set(dirs[o][0].values())
            jobs = rng.choice([1, 4])
            before = dict(ffs.counters) if ffs else {}
            res.evaluated()
            res.count("status_queries")
            held_before = set(list_store(root)[0])
            st = status(odb, ids, cache_odb=cache, shallow=not expanded, jobs=jobs)
            if ffs:
                after = ffs.counters
                if after.get("exists_batch", 0) > before.get("exists_batch", 0):
                    res.count("strategy/per-object-exists")
                if after.get("find_prefix", 0) + after.get("find_all", 0) > before.get("find_prefix", 0) + before.get("find_all", 0):
                    res.count("strategy/traverse")
            objs, _t, _s = list_store(root)
            now = set(objs)
            if now != held_before:
                res.violation(f"status-query-changed-the-store/{cls}", f"a status query removed valid object(s) {sorted(held_before - now)[:2]}", case=case,
                              detail={"store": cls, "queried": len(q)})
            now = held_before  # the answer is judged against the contents at query time
            E = {h.value for h in st.exists}
            M = {h.value for h in st.missing}
            cfg = {"store": cls, "queried": len(q), "expanded": expanded, "jobs": jobs, "present": len(now),
                   "page_size": getattr(ffs, "LIST_OBJECT_PAGE_SIZE", None) if ffs else None,
                   "zero_prefixed_present": sum(1 for o in now if o.startswith("00"))}
            if (denoted & now) and (denoted - now):
                res.nontrivial(sorted(now), sorted(denoted), expanded, cls, cfg["page_size"])
            res.sample(cfg)
            if E != denoted & now or M != denoted - now:
                wrong_e = sorted(E ^ (denoted & now))[:3]
                kind = "absent-reported-existing" if (E - now) else "present-reported-missing" if (M & now) else "ids-lost-or-invented"
                res.violation(f"status-wrong/{kind}/{cls}", f"status disagrees with the store listing on {wrong_e}", case=case, detail=cfg)
            if E & M:
                res.violation("status-not-a-partition", "exists and missing overlap", case=case, detail=cfg)
            # compare_status
            res.count("compare_status_calls")
            if expanded:
                # compare_status expands on the source side from the source itself
                for o in q:
                    if o in dirs and o not in src_present:
                        put(sroot, o, dirs[o][1])
                        src_present.add(o)
            check_deleted = rng.random() < 0.6
            # (looking for deletions is the default: a caller that wants it need not say so)
            cdkw = {} if (check_deleted and rng.random() < 0.5) else {"check_deleted": check_deleted}
            if not cdkw:
                res.count("compare_status_calls_relying_on_the_default")
            cs = compare_status(src, odb, ids, cache_odb=cache, shallow=not expanded, jobs=jobs, **cdkw)
            sobjs, _t2, _s2 = list_store(sroot)
            snow = set(sobjs)
            okk, mis, new, dele = ({h.value for h in x} for x in (cs.ok, cs.missing, cs.new, cs.deleted))
            exp_new, exp_missing = (denoted & snow) - now, denoted - snow - now
            if check_deleted or (denoted - now):
                exp_ok, exp_del = denoted & snow & now, (denoted & now) - snow
                if (okk, mis, new, dele) != (exp_ok, exp_missing, exp_new, exp_del):
                    res.violation("compare_status-wrong", "ok/missing/new/deleted do not match the two listings", case=case,
                                  detail={**cfg, "check_deleted": check_deleted})
            elif new != exp_new or mis != exp_missing:
                res.violation("compare_status-wrong/no-check-deleted", "new/missing do not match the two listings", case=case, detail=cfg)
        ctx.drop(d)

    def history(case=0, rng=None):
        d = ctx.fresh("i")
        sc = Scenario(ctx, rng, d, dest_kind="remote", ntrees=rng.choice([1, 2, 3]))
        # one on-disk index, reached through one or two handles (as separate commands of one repository would)
        handles = [ObjectDBIndex(os.path.join(d, "idx"), "dest")]
        if rng.random() < 0.5:
            handles.append(ObjectDBIndex(os.path.join(d, "idx"), "dest"))
            res.count("two_handle_histories")
        index = handles[0]
        ids, shallow, denoted = sc.closed_request(expanded=False)
        if sc.has_empty_tree:
            res.count("histories_with_an_empty_directory")
        # a second, unrelated store with its own index, alive in the same process (primary + backup remote): nothing is ever sent to it
        other_idx = other_odb = None
        if rng.random() < 0.5:
            other_odb, _ofs = mk_store(rng, os.path.join(d, "other-store"), "remote")
            other_idx = ObjectDBIndex(os.path.join(d, "idx-other"), "other")
            res.count("histories_with_second_store_index")
        # the listings are also available from a separate cache (so that a directory object can vanish from the source mid-transfer)
        treecache = env.local_odb(os.path.join(d, "treecache"))
        for t in sc.trees:
            put(treecache.path, t["oid"], sc.blobs[t["oid"]])
        delivered = set()
        log = []
        res.evaluated()
        res.count("histories")
        res.count("store/remote")
        interesting = False

        def upd(orig):
            def w(self, dir_hashes, file_hashes):
                dir_hashes, file_hashes = list(dir_hashes), list(file_hashes)
                res.count("index_updates_seen")
                log.append(("index.update", len(dir_hashes), len(file_hashes)))
                return orig(self, dir_hashes, file_hashes)
            return w

        def clr(orig):
            def w(self):
                res.count("index_clears_seen")
                log.append(("index.clear",))
                return orig(self)
            return w

        def check_other(step):
            if other_idx is not None:
                foreign = sorted(set(other_idx))
                if not foreign and rng.random() < 0.5:
                    # a files-only query on the other store through its own index
                    fq = {env.HI("md5", o) for o in sorted(sc.file_oids())[:4]}
                    stx = status(other_odb, fq, index=other_idx, cache_odb=sc.src)
                    foreign = sorted(h.value for h in stx.exists)
                    res.count("second_store_queries")
                if foreign:
                    res.violation(f"index-holds-undelivered-id/index-of-another-store/after-{step}",
                                  f"nothing was ever sent to the second store, yet its index / status knows {foreign[:2]}", case=case, detail={"log": log[-10:]})

        def check_index(step, validated=False):
            res.count("index_checks")
            # either index may be the first one read after the step
            other_first = rng.random() < 0.5
            if other_first:
                check_other(step)
            held = set(handles[0])
            if validated:
                # a query that named a directory validates every indexed directory: a stale index is cleared
                objs0, _t0, _s0 = list_store(sc.dest_root)
                stale = sorted(o for o in handles[0].dir_hashes() if o not in objs0)
                if stale:
                    res.violation(f"stale-index-not-cleared/after-{step}", f"index still holds directory {stale[:2]} which is not in the store",
                                  case=case, detail={"log": log[-10:]})
            objs, _t, _s = list_store(sc.dest_root)
            listed = set()
            for o, p in objs.items():
                if o.endswith(DIR_SUFFIX):
                    try:
                        with open(p, "rb") as f:
                            listed |= set(parse_dir_bytes(f.read())[0].values())
                        listed.add(o)
                    except ValueError:
                        pass
            if not other_first:
                check_other(step)
            invented = sorted(o for o in held if o not in delivered and o not in listed)
            if invented:
                res.violation(f"index-holds-undelivered-id/after-{step}",
                              f"index holds {invented[:2]} which was never delivered and is not listed by a directory object present now",
                              case=case, detail={"log": log[-10:], "held": len(held)})

        with MethodPatch(ObjectDBIndex, "update", upd), MethodPatch(ObjectDBIndex, "clear", clr):
            steps_ = [None] * rng.randrange(4, 13)
            if len(handles) == 2 and rng.random() < 0.5:
                # ... ending with the two handles taking turns: one delivers (and indexes), a directory is lost, the other one is asked
                steps_ += [("transfer", 1), ("delete-dir", 1), ("status", 0), ("transfer", 1), ("delete-dir", 1), ("status", 0)]
                res.count("histories_ending_with_the_handles_taking_turns")
            for _step in steps_:
                res.count("history_steps")
                index = rng.choice(handles)
                op = rng.choice(["transfer", "transfer", "failing-transfer", "delete-file", "delete-dir", "status", "status", "compare", "source-loses-file",
                                 "expanded-transfer", "dir-vanishes-mid-transfer", "close-handle"])
                if _step is not None:
                    op, index = _step[0], handles[_step[1]]
                if op == "close-handle":
                    # a handle is closed and then simply used again (it reconnects on demand)
                    rng.choice(handles).close()
                    res.count("index_handles_closed_and_reused")
                    log.append((op,))
                    continue
                if op == "source-loses-file":
                    objs_d, _t, _s = list_store(sc.dest_root)
                    cands = sorted(o for o in sc.file_oids() if o not in objs_d and os.path.exists(sc.src_path(o)))
                    if cands:
                        o = rng.choice(cands)
                        os.chmod(sc.src_path(o), 0o644)
                        os.unlink(sc.src_path(o))
                        res.count("source_lost_files")
                        interesting = True
                        log.append((op, o))
                    continue
                if op == "expanded-transfer":
                    # the request names directories only; transfer expands them (shallow=False)
                    sub = {t["hi"] for t in sc.trees if rng.random() < 0.7} or {sc.trees[0]["hi"]}
                    with UploadFaults(sc, frozenset()) as uf:
                        r = transfer(sc.src, sc.dest, sub, jobs=rng.choice([1, 4]), dest_index=index, cache_odb=rng.choice([sc.src, treecache]), shallow=False)
                    delivered.update(os.path.relpath(p, sc.dest_root).replace(os.sep, "") for p in sc.fs.puts(ok=True))
                    log.append((op, len(sub), len(r.transferred), len(r.failed)))
                    res.count("expanded_transfer_steps")
                    check_index(op, validated=True)
                    continue
                if op == "dir-vanishes-mid-transfer":
                    # a directory object is removed from the source right after the status query (concurrent gc); its listing is
                    # still loadable from the separate cache
                    objs_d, _t, _s = list_store(sc.dest_root)
                    cands = [t for t in sc.trees if t["oid"] not in objs_d and os.path.exists(sc.src_path(t["oid"]))]
                    if not cands:
                        continue
                    tv = rng.choice(cands)

                    def vanish(_st, tv=tv):
                        pth = sc.src_path(tv["oid"])
                        if os.path.exists(pth):
                            os.chmod(pth, 0o644)
                            os.unlink(pth)

                    sub = {tv["hi"]} | {env.HI("md5", v) for v in tv["listing"].values()}
                    with UploadFaults(sc, frozenset()) as uf:
                        r = transfer(sc.src, sc.dest, sub, jobs=rng.choice([1, 4]), dest_index=index, cache_odb=treecache, validate_status=vanish)
                    delivered.update(os.path.relpath(p, sc.dest_root).replace(os.sep, "") for p in sc.fs.puts(ok=True))
                    put(sc.src_root, tv["oid"], sc.blobs[tv["oid"]])  # comes back (fetched again) for the later steps
                    log.append((op, tv["oid"], len(r.transferred), len(r.failed)))
                    res.count("dir_vanished_mid_transfer_steps")
                    interesting = True
                    check_index(op, validated=True)
                    continue
                if op in ("transfer", "failing-transfer"):
                    fo = sorted(sc.file_oids() | {t["oid"] for t in sc.trees})
                    S = frozenset(o for o in fo if rng.random() < 0.3) if op == "failing-transfer" else frozenset()
                    if S:
                        res.count("failed_transfer_steps")
                        interesting = True
                    sub = ids if rng.random() < 0.6 else {i for i in ids if rng.random() < 0.7}
                    # keep the request closed: a directory goes with its files
                    for t in sc.trees:
                        if t["hi"] in sub:
                            sub |= {env.HI("md5", v) for v in t["listing"].values()}
                    with UploadFaults(sc, S) as uf:
                        r = transfer(sc.src, sc.dest, sub, jobs=rng.choice([1, 4]), dest_index=index, cache_odb=sc.src)
                    delivered.update(os.path.relpath(p, sc.dest_root).replace(os.sep, "") for p in sc.fs.puts(ok=True))
                    log.append((op, len(sub), sorted(S)[:3], len(r.transferred), len(r.failed)))
                    check_index(op, validated=any(i.isdir for i in sub))
                elif op in ("delete-file", "delete-dir"):
                    objs, _t, _s = list_store(sc.dest_root)
                    cands = [o for o in objs if o.endswith(DIR_SUFFIX) == (op == "delete-dir")]
                    if cands:
                        o = rng.choice(sorted(cands))
                        os.chmod(objs[o], 0o644)
                        os.unlink(objs[o])
                        res.count("external_deletions")
                        interesting = True
                        log.append((op, o))
                elif op == "status":
                    sub = {i for i in ids if rng.random() < 0.8} or ids
                    exp_q = rng.random() < 0.4
                    if exp_q:
                        sub = {i for i in sub if i.isdir} or {sc.trees[0]["hi"]}
                        res.count("expanded_status_queries_with_index")
                    walk_ = None
                    if rng.random() < 0.3:
                        # the caller is walking through what the index knows and asks for the status from inside its loop - which it
                        # then leaves early (the walk is abandoned half way)
                        walk_ = index.intersection({t["oid"] for t in sc.trees} | set(sc.file_oids()))
                        if next(walk_, None) is not None:
                            res.count("status_queries_from_inside_an_abandoned_index_walk")
                    st = status(sc.dest, sub, index=index, cache_odb=rng.choice([sc.src, treecache]), jobs=rng.choice([1, 4]), shallow=not exp_q)
                    if walk_ is not None:
                        walk_.close()
                    objs, _t, _s = list_store(sc.dest_root)
                    log.append(("status", len(sub), len(st.exists), "expanded" if exp_q else "shallow"))
                    # (files listed by a directory object that is present are assumed to exist: only directories are judged below)
                    for h in st.exists:
                        if h.isdir:
                            res.count("indexed_dir_exists_checked")
                            if h.value not in objs:
                                res.violation("directory-reported-existing-but-absent", f"with an index, {h.value} is reported existing but is not in the store",
                                              case=case, detail={"log": log[-10:]})
                    for h in st.missing:
                        if h.value in objs and not h.isdir:
                            pass  # a stale index may only err towards 'exists' for files; 'missing' for a present object is a plain error
                        if h.value in objs:
                            res.violation("present-object-reported-missing/with-index", f"{h.value} is in the store but reported missing", case=case,
                                          detail={"log": log[-10:]})
                    check_index("status", validated=any(i.isdir for i in sub))
                else:
                    cs = compare_status(sc.src, sc.dest, ids, check_deleted=rng.random() < 0.5, dest_index=index, cache_odb=sc.src)
                    objs, _t, _s = list_store(sc.dest_root)
                    log.append(("compare_status", len(cs.ok), len(cs.new)))
                    for h in cs.ok | cs.deleted:
                        if h.isdir and h.value not in objs:
                            res.violation("directory-reported-existing-but-absent/compare_status", f"{h.value} reported in dest but absent", case=case,
                                          detail={"log": log[-10:]})
                    check_index("compare_status", validated=True)
        if interesting:
            res.nontrivial("hist", log)
        res.sample({"history": log[:10]})
        for h in handles:
            h.close()
        if other_idx is not None:
            other_idx.close()
        env.reset_staging()
        ctx.drop(d)

    def many_dirs(case=0, rng=None):
        """an index that knows more directories than any validation batch: some of them have gone from the store"""
        d = ctx.fresh("md")
        root, croot = os.path.join(d, "store"), os.path.join(d, "treecache")
        odb, ffs = mk_store(rng, root, "remote")
        cache = env.local_odb(croot)
        ndirs = rng.choice([99, 100, 101, 130, 260])
        index = ObjectDBIndex(os.path.join(d, "idx"), "dest")
        dirs = {}
        for i in range(ndirs):
            fo = H("md5", b"file of dir %d" % i)
            raw = canonical_dir_bytes({f"f{i}": fo})
            doid = H("md5", raw) + DIR_SUFFIX
            dirs[doid] = fo
            put(root, doid, raw)
            put(croot, doid, raw)
            put(root, fo, b"file of dir %d" % i)
        index.update(list(dirs), list(dirs.values()))
        res.evaluated()
        res.count("many_indexed_directories_cases")
        order = sorted(dirs)
        gone = set(rng.sample(order, rng.randrange(2, 6)))
        for o in gone:
            os.chmod(os.path.join(root, o[:2], o[2:]), 0o644)
            os.unlink(os.path.join(root, o[:2], o[2:]))
        q = set(rng.sample(order, 10)) | set(rng.sample(sorted(gone), 2))
        res.nontrivial("many-dirs", ndirs, sorted(gone), sorted(q))
        st = status(odb, {env.HI("md5", o) for o in q}, index=index, cache_odb=cache, jobs=rng.choice([1, 4]))
        objs, _t, _s = list_store(root)
        for h in st.exists:
            if h.isdir and h.value not in objs:
                res.violation("directory-reported-existing-but-absent/many-indexed-directories",
                              f"index of {ndirs} directories, {len(gone)} gone from the store: {h.value} reported existing", case=case, detail={"ndirs": ndirs, "gone": len(gone)})
                break
        stale = sorted(o for o in index.dir_hashes() if o not in objs)
        if stale:
            res.violation("stale-index-not-cleared/many-indexed-directories", f"after a validating query the index still holds {len(stale)} directories that are not in the store",
                          case=case, detail={"ndirs": ndirs})
        index.close()
        ctx.drop(d)

    for case, rng in ctx.cases(ctx.plan["n"]):
        if case % 200 == 7:
            ctx.guard(case, many_dirs, case, rng)
            continue
        if case % 3 == 0:
            ctx.guard(case, history, case, rng)
        else:
            ctx.guard(case, exact, case, rng)
