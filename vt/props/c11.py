"""C11 - a transfer's result tells the truth about what arrived."""

import os

from .. import env, gen
from ..monitors import Recorder
from ..oracle import H, store_snapshot
from ..transfer_lab import Scenario, UploadFaults, dest_objects, failure_subsets, ok_bytes

RULE = (
    "scenario = generated trees + single files in a source cache; arbitrary initial destination contents (random subset of the "
    "request pre-delivered, plus unrelated objects); request closed or expanded; variants: objects missing from both sides "
    "(file objects removed from the source), corrupt source objects under verify=True (base-class source); the request handed over as set / list / tuple / one-shot iterator / generator, options hardlink on/off, destination opened read-only, a source index whose clear() times out on the failure path (raising = no claim); round = one "
    "upload-failure subset (all subsets when <= 5 objects remain to be sent, sampled otherwise).  TransferResult is compared "
    "with an independent listing of the destination before/after, the upload log and a byte snapshot of the source.  "
    "non-trivial = something was new to the destination; distinct = (scenario content, initial contents, variant, failing subset)"
)
ASSUMPTIONS = [
    "fault = OSError from the destination's upload primitive",
    "'new to the destination' = denoted by the request, present in the source, absent from the destination before the call",
    "corrupt-source cases use a base-class source so that the source's own integrity check does not discard the object first",
]
MONITORS = "TransferResult vs os.walk listings of the destination before/after, per-oid upload log, source byte snapshot and audit-hook mutation log on the source"
REQUIRED_COUNTERS = [
    "rounds_verifying_by_configuration_only", "rounds_status_hook_returns_a_value", "index_across_sessions_rounds", "wide_directory_scenarios", "rounds_destination_of_other_md5_flavour", "ids_as/iterator", "ids_as/generator", "rounds_with_hardlink_option", "rounds_read_only_destination", "rounds_source_index_clear_fails", "rounds_source_vanishes", "corrupt_parseable_dir_objects", "rounds_with_index", "rounds_dest_with_state", "rounds", "rounds_with_failures", "rounds_with_preexisting", "rounds_missing_both_sides", "rounds_verify_corrupt_source",
    "transferred_objects_checked", "source_snapshots_compared", "rounds_expanded", "rounds_local_dest", "rounds_remote_dest",
]


def run_shard(ctx):
    from dvc_data.hashfile.transfer import transfer

    res = ctx.res
    max_rounds = 10 if ctx.tier == "quick" else 36

    def with_index(case, rng):
        """two pushes sharing a destination index, with an external deletion in between"""
        from dvc_data.hashfile.db.index import ObjectDBIndex

        d = ctx.fresh("x")
        sc = Scenario(ctx, rng, d, dest_kind=rng.choice(["remote", "remote", "local"]), ntrees=rng.choice([2, 3]), extra_files=False)
        index = ObjectDBIndex(os.path.join(d, "idx"), "dest")
        ids, shallow, denoted = sc.closed_request(expanded=False)
        r1 = transfer(sc.src, sc.dest, ids, jobs=rng.choice([1, 4]), dest_index=index, cache_odb=sc.src)
        res.evaluated()
        res.count("rounds")
        res.count("rounds_with_index")
        if r1.failed:
            res.violation("fault-free-transfer-reported-failures", f"{len(r1.failed)} failed", case=case)
        # the destination loses one directory object and one of its files
        victim = rng.choice(sc.trees)
        lost = {victim["oid"]}
        only_here = [o for o in set(victim["listing"].values()) if sum(o in t["listing"].values() for t in sc.trees) == 1]
        if only_here:
            lost.add(rng.choice(sorted(only_here)))
        for o in lost:
            p = sc.dest_path(o)
            if os.path.exists(p):
                os.chmod(p, 0o644)
                os.unlink(p)
        before = dest_objects(sc)
        # second request: the other directories (with their files) plus the lost file, or everything
        if rng.random() < 0.5:
            sub = set(ids)
        else:
            sub = set()
            for t in sc.trees:
                if t is not victim:
                    sub.add(t["hi"])
                    sub |= {env.HI("md5", v) for v in t["listing"].values()}
            sub |= {env.HI("md5", o) for o in lost if not o.endswith(".dir")}
        res.nontrivial("index", sorted(t["oid"] for t in sc.trees), sorted(lost), len(sub))
        r2 = transfer(sc.src, sc.dest, sub, jobs=rng.choice([1, 4]), dest_index=index, cache_odb=sc.src)
        after = dest_objects(sc)
        T = {h.value for h in r2.transferred}
        F = {h.value for h in r2.failed}
        info = {"variant": "index-after-external-deletion", "dest": sc.dest_kind, "lost": sorted(lost), "requested": sorted(h.value for h in sub)}
        res.evaluated()
        res.count("rounds")
        res.count("rounds_with_index")
        has_dir = any(h.isdir for h in sub)
        for h in sub:
            o = h.value
            if o not in after and o not in F and has_dir:
                res.violation("absent-object-not-reported/with-index", f"{o} requested, absent afterwards, neither transferred nor failed (stale index trusted)",
                              case=case, detail=info)
        for o in T:
            res.count("transferred_objects_checked")
            if o not in after or not ok_bytes(sc, o, after[o]):
                res.violation("reported-transferred-but-absent/with-index", f"{o}", case=case, detail=info)
        for o in set(before) & (T | F):
            res.violation("already-present-object-reported/with-index", f"{o}", case=case, detail=info)
        index.close()
        env.reset_staging()
        ctx.drop(d)

    def index_across_sessions(case, rng):
        """a persistent destination index: first push while a file is missing on both sides (expanded request), the file comes back,
        second push through a FRESH handle on the same index"""
        from dvc_data.hashfile.db.index import ObjectDBIndex

        d = ctx.fresh("xs")
        sc = Scenario(ctx, rng, d, dest_kind=rng.choice(["remote", "local"]), ntrees=rng.choice([1, 2]), extra_files=False)
        idx_dir = os.path.join(d, "idx")
        files = sorted(sc.file_oids())
        gone = rng.choice(files)
        kept = sc.src_path(gone) + ".verif-kept"
        os.replace(sc.src_path(gone), kept)
        dir_ids = {t["hi"] for t in sc.trees}
        index = ObjectDBIndex(idx_dir, "dest")
        r1 = transfer(sc.src, sc.dest, dir_ids, jobs=rng.choice([1, 4]), dest_index=index, cache_odb=sc.src, shallow=False)
        index.close()
        res.evaluated()
        res.count("rounds")
        res.count("rounds_with_index")
        res.count("index_across_sessions_rounds")
        os.replace(kept, sc.src_path(gone))  # the file is back in the source
        before = dest_objects(sc)
        index2 = ObjectDBIndex(idx_dir, "dest")
        r2 = transfer(sc.src, sc.dest, dir_ids, jobs=rng.choice([1, 4]), dest_index=index2, cache_odb=sc.src, shallow=False)
        index2.close()
        after = dest_objects(sc)
        T, F = {h.value for h in r2.transferred}, {h.value for h in r2.failed}
        res.nontrivial("index-across-sessions", sorted(t["oid"] for t in sc.trees), gone)
        info = {"variant": "index-across-sessions", "dest": sc.dest_kind, "missing_at_first": gone}
        denoted = {t["oid"] for t in sc.trees} | set(files)
        for o in sorted(denoted):
            if o not in after and o not in F:
                res.violation("absent-object-not-reported/persistent-index-across-sessions", f"{o} is requested (expanded), absent afterwards and not reported failed", case=case, detail=info)
                break
        for o in sorted(T):
            res.count("transferred_objects_checked")
            if o not in after or not ok_bytes(sc, o, after[o]):
                res.violation("reported-transferred-but-absent/persistent-index-across-sessions", f"{o}", case=case, detail=info)
        env.reset_staging()
        ctx.drop(d)

    for case, rng in ctx.cases(ctx.plan["n"]):
        if case % 8 == 7:
            ctx.guard(case, with_index, case, rng)
            continue
        if case % 16 == 3:
            ctx.guard(case, index_across_sessions, case, rng)
            continue

        def one(case=case, rng=rng):
            d = ctx.fresh("r")
            variant = rng.choice(["plain", "plain", "missing-both", "verify-corrupt"])
            dest_kind = rng.choice(["remote", "local", "local"]) if variant != "verify-corrupt" else rng.choice(["remote", "local", "base"])
            wide = rng.choice([257, 300, 520]) if (case % 16 == ctx.shard % 16 and case < 16 * (1 if ctx.tier == "quick" else 3) and variant == "plain") else 0
            sc = Scenario(ctx, rng, d, dest_kind=dest_kind, ntrees=1 if wide else rng.choice([1, 1, 2, 3]), wide=wide)
            if wide:
                res.count("wide_directory_scenarios")
            # the destination may be a store of the other md5 flavour (legacy remote for a new cache, or the reverse)
            other_name = variant == "plain" and rng.random() < 0.15
            expanded = rng.random() < 0.4
            jobs = rng.choice([1, 4])
            dest_state = rng.random() < 0.5
            ids, shallow, denoted = sc.closed_request(expanded)
            if variant == "plain" and rng.random() < 0.3:
                # a partial request: files only / one dir only
                ids = {i for i in ids if rng.random() < 0.6} or ids
                denoted = set()
                for i in ids:
                    denoted.add(i.value)
                    if i.isdir and expanded:
                        denoted |= set(next(t for t in sc.trees if t["oid"] == i.value)["listing"].values())
            verify = False
            corrupt = set()
            src = sc.src
            missing_both = set()
            if variant == "missing-both":
                cands = sorted(sc.file_oids())
                for o in cands:
                    if rng.random() < 0.35:
                        os.chmod(sc.src_path(o), 0o644)
                        os.unlink(sc.src_path(o))
                        missing_both.add(o)
                if not missing_both and cands:
                    o = rng.choice(cands)
                    os.unlink(sc.src_path(o))
                    missing_both.add(o)
            if variant == "verify-corrupt":
                verify = True
                src = env.base_odb(sc.src_root)  # same directory, base class: no integrity side effects on the source
                cands = sorted(sc.file_oids())
                for o in cands:
                    if rng.random() < 0.3 or not corrupt:
                        p = sc.src_path(o)
                        os.chmod(p, 0o644)
                        with open(p, "ab") as f:
                            f.write(b"#corrupt")
                        corrupt.add(o)
            if variant == "verify-corrupt" and rng.random() < 0.5:
                # a directory object whose bytes no longer hash to its name but still parse (re-serialised by some tool)
                import json as _j

                t = rng.choice(sc.trees)
                p = sc.src_path(t["oid"])
                os.chmod(p, 0o644)
                with open(p, "wb") as f:
                    f.write(_j.dumps([{"md5": d_, "relpath": r_} for r_, d_ in sorted(t["listing"].items())], indent=1).encode())
                corrupt.add(t["oid"])
                res.count("corrupt_parseable_dir_objects")
            # arbitrary initial destination contents
            pre = {o for o in denoted if o not in missing_both and o not in corrupt and rng.random() < 0.3}
            for o in pre:
                p = sc.dest_path(o)
                os.makedirs(os.path.dirname(p), exist_ok=True)
                with open(p, "wb") as f:
                    f.write(sc.blobs[o])
                if dest_kind == "local":
                    os.chmod(p, 0o444)
            for _ in range(rng.randrange(0, 3)):
                b = gen.small_content(rng)
                p = sc.dest_path(H("md5", b))
                os.makedirs(os.path.dirname(p), exist_ok=True)
                with open(p, "wb") as f:
                    f.write(b)
            dest_before_master = store_snapshot(sc.dest_root)
            src_before = store_snapshot(sc.src_root)
            new = {o for o in denoted if o in src_before and o not in dest_before_master}
            subsets, exhaustive = failure_subsets(rng, sorted(new), max_exhaustive=5, sample=5)
            if len(subsets) > max_rounds:
                rng.shuffle(subsets)
                subsets = [frozenset()] + subsets[: max_rounds - 1]
            scen_sig = (sorted((t["oid"]) for t in sc.trees), sorted(sc.single_files), sorted(pre), variant, expanded, dest_kind, sorted(missing_both), sorted(corrupt))
            res.sample({
                "variant": variant, "dest": dest_kind, "expanded": expanded, "jobs": jobs, "denoted": len(denoted), "preexisting": len(pre),
                "new": len(new), "missing_both_sides": sorted(missing_both), "corrupt_source": sorted(corrupt), "subsets": len(subsets),
                "trees": [{"oid": t["oid"], "listing": t["listing"]} for t in sc.trees][:2],
            })
            master = os.path.join(d, "dest-master")
            os.rename(sc.dest_root, master)

            for S in subsets:
                if ctx.out_of_time():
                    res.count("stopped_by_time_budget")
                    break
                from ..crashlab import copy_master

                copy_master(master, sc.dest_root)
                dcfg = {"verify": True} if verify else {}
                if dest_state and dest_kind != "remote":
                    from ..env import mk_state

                    dcfg["state"] = mk_state(d, os.path.join(d, "dest-state"))
                    res.count("rounds_dest_with_state")
                if other_name:
                    dcfg["hash_name"] = "md5-dos2unix"
                    res.count("rounds_destination_of_other_md5_flavour")
                sc.dest = sc._mk_dest(**dcfg)
                res.evaluated()
                res.count("rounds")
                res.count(f"rounds_{'remote' if dest_kind == 'remote' else 'local'}_dest")
                if expanded:
                    res.count("rounds_expanded")
                if S:
                    res.count("rounds_with_failures")
                if pre:
                    res.count("rounds_with_preexisting")
                if missing_both:
                    res.count("rounds_missing_both_sides")
                if corrupt:
                    res.count("rounds_verify_corrupt_source")
                if new:
                    res.nontrivial(scen_sig, sorted(S))
                info = {"variant": variant, "dest": dest_kind, "expanded": expanded, "failing": sorted(S), "preexisting": sorted(pre),
                        "missing_both": sorted(missing_both), "corrupt": sorted(corrupt), "verify": verify, "jobs": jobs,
                        "trees": [{"oid": t["oid"], "listing": t["listing"]} for t in sc.trees]}
                vanished = set()
                vs_hook = None
                if variant == "plain" and not S and new and rng.random() < 0.5:
                    # some source objects are removed by someone else right after the status query
                    res.count("rounds_source_vanishes")
                    cand = sorted(o for o in new if not o.endswith(".dir"))
                    vanished = {o for o in cand if rng.random() < 0.4} or set(cand[:1])

                    def vs_hook(_st, vanished=vanished):
                        for o in vanished:
                            pth = sc.src_path(o)
                            if os.path.exists(pth):
                                os.chmod(pth, 0o644)
                                os.unlink(pth)
                if vs_hook is None and rng.random() < 0.3:
                    # a status hook that only looks, but returns something: the hook's return value carries no meaning (the library's
                    # own hook returns None), so the transfer must do - and report - the same whatever comes back
                    from dvc_data.hashfile.status import CompareStatusResult as _CSR

                    back = rng.choice(["False", "True", "bool(missing)", "empty-status", "same-status", "status-without-new"])
                    info["status_hook_returns"] = back
                    res.count("rounds_status_hook_returns_a_value")
                    res.count(f"status_hook_returns/{back}")

                    def vs_hook(st_, back=back):
                        return {"False": False, "True": True, "bool(missing)": bool(st_.missing), "empty-status": _CSR(set(), set(), set(), set()),
                                "same-status": st_, "status-without-new": _CSR(set(st_.ok), set(st_.missing), set(), set(st_.deleted))}[back]
                # option / fault combinations on top of the round
                hardlink = rng.random() < 0.35
                info["hardlink"] = hardlink
                if hardlink:
                    res.count("rounds_with_hardlink_option")
                ro_dest = variant == "plain" and not vanished and rng.random() < 0.08
                if ro_dest:
                    sc.dest = sc._mk_dest(**{**dcfg, "read_only": True})
                    info["read_only_destination"] = True
                    res.count("rounds_read_only_destination")
                sidx = None
                if S and not ro_dest and rng.random() < 0.15:
                    # a source index whose clear() times out (diskcache lock held by another process) on the failure path
                    from dvc_objects.errors import ObjectDBError as _ODBE

                    from dvc_data.hashfile.db.index import ObjectDBIndex as _Idx

                    sidx = _Idx(os.path.join(d, f"sidx{len(info['failing'])}-{rng.randrange(10**6)}"), "src")

                    def _clear_times_out():
                        raise _ODBE("Failed to clear ODB index")

                    sidx.clear = _clear_times_out
                    info["source_index_clear_times_out"] = True
                    res.count("rounds_source_index_clear_fails")
                refused = None
                with Recorder([sc.src_root]) as rec, UploadFaults(sc, S) as uf:
                    try:
                        form = rng.choice(["set", "set", "list", "tuple", "iterator", "generator"])
                        res.count(f"ids_as/{form}")
                        info["ids_as"] = form
                        ids_arg = {"set": lambda: set(ids), "list": lambda: list(ids), "tuple": lambda: tuple(ids), "iterator": lambda: iter(list(ids)),
                                   "generator": lambda: (i_ for i_ in list(ids))}[form]()
                        # (a destination that is configured to verify verifies whether or not the call repeats that wish)
                        vkw = {} if (verify and rng.random() < 0.5) else {"verify": verify}
                        if not vkw:
                            res.count("rounds_verifying_by_configuration_only")
                        r = transfer(src, sc.dest, ids_arg, jobs=jobs, shallow=shallow, cache_odb=src, validate_status=vs_hook,
                                     hardlink=hardlink, src_index=sidx, **vkw)
                    except Exception as e:  # noqa: BLE001
                        from dvc_objects.errors import ObjectDBError as _ODBE2

                        if not (isinstance(e, _ODBE2) and (ro_dest or sidx is not None)):
                            raise
                        refused = e
                if sidx is not None:
                    sidx.close()
                if refused is not None:
                    # raising makes no claim about what arrived; nothing else to compare in this round
                    res.count("rounds_refused_loudly")
                    if ro_dest and dest_objects(sc) != {o: b for o, b in dest_before_master.items()}:
                        res.violation("read-only-destination-modified", "the transfer raised for a read-only destination but had changed it", case=case, detail=info)
                    if "state" in dcfg:
                        dcfg["state"].close()
                    continue
                if vanished:
                    info["vanished_from_source"] = sorted(vanished)
                    rec.events[:] = []
                    for o in vanished:  # restore for the following rounds
                        pth = sc.src_path(o)
                        os.makedirs(os.path.dirname(pth), exist_ok=True)
                        with open(pth, "wb") as f:
                            f.write(src_before[o])
                        os.chmod(pth, 0o444)
                after = dest_objects(sc)
                T = {h.value for h in r.transferred}
                F = {h.value for h in r.failed}
                # 1. transferred => present with the right bytes
                for o in sorted(T):
                    res.count("transferred_objects_checked")
                    if o not in after:
                        t = next((t for t in sc.trees if t["oid"] == o), None)
                        if t is not None and set(t["listing"].values()) & missing_both:
                            key = "dir-with-entries-missing-on-both-sides"
                        elif o in corrupt:
                            key = "verify-discarded-corrupt-source-object"
                        else:
                            key = "other"
                        res.violation(f"reported-transferred-but-absent/{key}", f"{o} is in result.transferred but not in the destination",
                                      case=case, detail=info)
                    elif not ok_bytes(sc, o, after[o]):
                        res.violation("reported-transferred-but-wrong-bytes" + ("/corrupt-source" if o in corrupt else ""),
                                      f"{o} reported transferred, destination bytes do not match", case=case, detail=info)
                # 2. requested and absent afterwards => failed, or missing from both sides
                for o in sorted(denoted):
                    if o not in after and o not in F and o not in missing_both and o not in T:
                        res.violation("absent-object-not-reported", f"{o} was requested, is absent afterwards, and is neither failed nor missing on both sides",
                                      case=case, detail=info)
                # 3. disjoint
                if T & F:
                    res.violation("transferred-and-failed-overlap", f"{sorted(T & F)[:2]} in both sets", case=case, detail=info)
                # 4. already present: neither reported nor re-sent
                for o in sorted(set(dest_before_master) & (T | F)):
                    res.violation("already-present-object-reported", f"{o} was in the destination before the call but is reported", case=case, detail=info)
                resent = sorted(set(uf.upload_attempts) & set(dest_before_master))
                if resent:
                    res.violation("already-present-object-resent", f"{resent[:2]} uploaded again although present", case=case, detail=info)
                # partition of what was new
                if (T | F) != new:
                    res.violation("result-is-not-a-partition-of-new-objects",
                                  f"transferred|failed != new: extra={sorted((T | F) - new)[:2]} unreported={sorted(new - (T | F))[:2]}", case=case, detail=info)
                # 5. source untouched
                res.count("source_snapshots_compared")
                if store_snapshot(sc.src_root) != src_before:
                    res.violation("source-modified", "source store bytes changed / objects removed by the transfer", case=case, detail=info)
                if rec.events:
                    res.violation("source-mutating-fs-event", f"mutating filesystem call on the source store: {rec.events[0][:2]}", case=case, detail=info)
                # unchanged pre-existing objects
                for o, b in dest_before_master.items():
                    if after.get(o) != b:
                        res.violation("preexisting-destination-object-changed", f"{o} was altered or removed in the destination", case=case, detail=info)
                        break
                if "state" in dcfg:
                    dcfg["state"].close()
            env.reset_staging()
            ctx.drop(d)

        ctx.guard(case, one)
