"""C19 - three-way directory merge never silently loses or overrides an entry."""

import itertools
import os

from ..oracle import canonical_dir_oid

RULE = (
    "every (ancestor, ours, theirs) triple of listings over a key universe with nested keys, each key absent or carrying one of "
    "two values, under 5 allowed-operation policies; both argument orders are members of the enumeration and are compared with "
    "each other; plus random triples over 6 keys and merge() through a real store (sides built fresh or derived by loading the ancestor's object and adding to it; entries deleted by both sides next to one-sided deletions; earlier merges of the same objects under other policies); non-trivial = at least one side differs from "
    "the ancestor; distinct = (ancestor, ours, theirs, policy)"
)
ASSUMPTIONS = [
    "MergeError is always an acceptable outcome (the statement allows refusal)",
    "per-key three-way rule: a path takes the side that changed it, or the common value when both agree; otherwise conflict",
]
MONITORS = "outcome of tree._merge / tree.merge compared with an independent per-key three-way merge"
REQUIRED_COUNTERS = ["file_on_one_side_directory_on_the_other", "policies_as_one_shot_iterables", "merges_of_listings_with_another_hash_name", "common_deletion_cases", "sides_derived_from_loaded_ancestor", "non_canonical_stored_listings", "policy_sequences", "ancestor_unavailable_cases", "merge_calls", "accepted", "refused", "order_pairs_compared", "merge_via_store"]
EXHAUSTIVE = {"quick": True, "thorough": True}

POLICIES = [None, ["add"], ["add", "remove"], ["add", "change"], ["add", "remove", "change"]]
ABSENT = object()


def three_way(anc, ours, theirs):
    """-> (merged dict, conflicts list)"""
    out, conflicts = {}, []
    for k in set(anc) | set(ours) | set(theirs):
        a, o, t = anc.get(k, ABSENT), ours.get(k, ABSENT), theirs.get(k, ABSENT)
        if o == a:
            v = t
        elif t == a or o == t:
            v = o
        else:
            conflicts.append(k)
            continue
        if v is not ABSENT:
            out[k] = v
    return out, conflicts


def side_ops(anc, side):
    ops = set()
    for k in set(anc) | set(side):
        a, s = anc.get(k, ABSENT), side.get(k, ABSENT)
        if a is ABSENT and s is not ABSENT:
            ops.add("add")
        elif a is not ABSENT and s is ABSENT:
            ops.add("remove")
        elif a != s:
            ops.add("change")
    return ops


def conflict_shape(anc, ours, theirs, conflicts):
    shapes = set()
    for k in conflicts:
        a, o, t = anc.get(k, ABSENT), ours.get(k, ABSENT), theirs.get(k, ABSENT)

        def op(x):
            if a is ABSENT:
                return "add"
            if x is ABSENT:
                return "remove"
            return "change"

        shapes.add("-vs-".join(sorted([op(o), op(t)])))
    return "+".join(sorted(shapes)) or "none"


def run_shard(ctx):
    from dvc_data.hashfile.hash_info import HashInfo
    from dvc_data.hashfile.meta import Meta
    from dvc_data.hashfile.tree import MergeError, Tree, _merge, merge

    from .. import env

    res = ctx.res

    def val(i):
        return (Meta(size=i), HashInfo("md5", f"{i:032x}"))

    V = [ABSENT, val(1), val(2)]

    def outcome(anc, ours, theirs, pol, tag, case):
        """run _merge once and judge it against the three-way rule"""
        res.evaluated()
        res.count("merge_calls")
        exp, conflicts = three_way(anc, ours, theirs)
        a0, o0, t0 = dict(anc), dict(ours), dict(theirs)
        try:
            got = _merge(anc, ours, theirs, allowed=pol)
        except MergeError:
            res.count("refused")
            return ("refused", None)
        except Exception as e:  # noqa: BLE001
            shape = conflict_shape(anc, ours, theirs, conflicts)
            res.violation(
                f"non-MergeError-exception/{type(e).__name__}/{shape}",
                f"_merge raised {type(e).__name__} instead of MergeError (conflict shape {shape})",
                case=case,
                detail={"anc": anc, "ours": ours, "theirs": theirs, "policy": pol, "exc": repr(e), "tag": tag},
            )
            return ("exc", type(e).__name__)
        res.count("accepted")
        if (anc, ours, theirs) != (a0, o0, t0):
            res.violation("inputs-mutated", "_merge modified one of its arguments", case=case, detail={"tag": tag})
        if conflicts:
            res.violation(
                "accepted-conflict/" + conflict_shape(anc, ours, theirs, conflicts),
                "merge succeeded although the three-way rule has a conflict",
                case=case,
                detail={"anc": anc, "ours": ours, "theirs": theirs, "policy": pol, "got": got, "conflicts": conflicts},
            )
        elif got != exp:
            lost = sorted(set(exp) - set(got))
            extra = sorted(set(got) - set(exp))
            kind = "dropped-entry" if lost else "resurrected-entry" if extra else "overridden-entry"
            res.violation(
                f"wrong-result/{kind}",
                f"merge result differs from the three-way merge ({kind})",
                case=case,
                detail={"anc": anc, "ours": ours, "theirs": theirs, "policy": pol, "got": got, "expected": exp},
            )
        oo, to = side_ops(anc, ours), side_ops(anc, theirs)
        if oo and to:
            allowed = set(pol or ["add"])
            if not (oo <= allowed and to <= allowed):
                res.violation(
                    "policy-breach/" + ("default" if pol is None else "+".join(pol)),
                    f"both-sides merge accepted although a side did {sorted((oo | to) - allowed)}",
                    case=case,
                    detail={"anc": anc, "ours": ours, "theirs": theirs, "policy": pol, "got": got},
                )
        return ("ok", got)

    # ---------------------------------------------------------------- enumerated universe
    if ctx.tier == "thorough":
        universe = [("a",), ("d", "x"), ("d", "y"), ("d", "e", "z")]
    else:
        universe = [("a",), ("d", "x"), ("d", "y")]
    states = []
    for combo in itertools.product(range(3), repeat=len(universe)):
        states.append({k: V[c] for k, c in zip(universe, combo) if c != 0})
    res.sample({"universe": universe, "values": ["absent", "v1", "v2"], "states": len(states), "policies": POLICIES})

    if ctx.replay_case is None or ctx.replay_case < len(states):
        for ai in range(ctx.shard, len(states), ctx.nshards):
            if ctx.replay_case is not None and ai != ctx.replay_case:
                continue
            anc = states[ai]

            def one(anc=anc, ai=ai):
                for pi, pol in enumerate(POLICIES):
                    table = {}
                    for oi, ours in enumerate(states):
                        for ti, theirs in enumerate(states):
                            if ours != anc or theirs != anc:
                                res.nontrivial(ai, oi, ti, pi)
                            table[(oi, ti)] = outcome(dict(anc), dict(ours), dict(theirs), pol, ("enum", ai, oi, ti, pi), ai)
                    for (oi, ti), r in table.items():
                        if oi < ti:
                            r2 = table[(ti, oi)]
                            res.count("order_pairs_compared")
                            if r[0] == "ok" and r2[0] == "ok" and r[1] != r2[1]:
                                res.violation(
                                    "order-dependent-result",
                                    "both argument orders succeed with different results",
                                    case=ai,
                                    detail={"anc": anc, "a": states[oi], "b": states[ti], "policy": pol, "r1": r[1], "r2": r2[1]},
                                )

            ctx.guard(ai, one)

    # ---------------------------------------------------------------- random triples, 6 keys
    keys6 = [("a",), ("b",), ("d", "x"), ("d", "y"), ("d", "e", "z"), ("f", "g")]
    nrand = 6000 if ctx.tier == "quick" else 60000
    base = len(states)
    for case, rng in ctx.cases(base + nrand, salt="rand"):
        if case < base:
            continue

        def one(case=case, rng=rng):
            def rstate():
                return {k: V[rng.randrange(1, 3)] for k in keys6 if rng.random() < 0.6}

            anc = rstate()

            def derive():
                s = dict(anc)
                for k in keys6:
                    r = rng.random()
                    if r < 0.15:
                        s.pop(k, None)
                    elif r < 0.35:
                        s[k] = V[rng.randrange(1, 3)]
                return s

            ours, theirs = derive(), derive()
            pol = rng.choice(POLICIES)
            res.nontrivial("r", sorted(anc.items(), key=repr), sorted(ours.items(), key=repr), sorted(theirs.items(), key=repr), pol)
            r1 = outcome(dict(anc), dict(ours), dict(theirs), pol, "rand", case)
            r2 = outcome(dict(anc), dict(theirs), dict(ours), pol, "rand-swapped", case)
            res.count("order_pairs_compared")
            if r1[0] == "ok" and r2[0] == "ok" and r1[1] != r2[1]:
                res.violation("order-dependent-result", "both argument orders succeed with different results", case=case,
                              detail={"anc": anc, "ours": ours, "theirs": theirs, "policy": pol})

        ctx.guard(case, one)

    # ---------------------------------------------------------------- merge() through a real store
    nstore = 1600 if ctx.tier == "quick" else 8000
    for case, rng in ctx.cases(base + nrand + nstore, salt="store"):
        if case < base + nrand:
            continue

        def one(case=case, rng=rng):
            d = ctx.fresh("m")
            odb = env.local_odb(d)
            names = ["a", "b", "d/x", "d/y", "d/e/z", "é/日本", "cafe\u0301.txt", "caf\u00e9.txt", "e\u0301/x", "\u00e9/x", "data", "data/new",
                     # names that continue a sibling directory's name with a character sorting below "/" (the canonical order is that of the
                     # whole relative paths, not of their parts)
                     "d.csv", "d-v2/x", "data.csv", "data-v2/x", "d e/x"]

            def well_formed(s_):
                # one listing never holds a path both as a file and as a directory (the two sides together may)
                if "data" in s_ and "data/new" in s_:
                    del s_[rng.choice(["data", "data/new"])]
                return s_

            # the listings' entries may carry their digests under another hash name (cloud etags) than the store's own algorithm
            ename = rng.choice(["etag", "etag", "sha256", "checksum"]) if rng.random() < 0.2 else "md5"
            if ename != "md5":
                res.count("merges_of_listings_with_another_hash_name")

            def mk(listing):
                if ename != "md5":
                    t = Tree()
                    for rel, dg in listing.items():
                        t.add(tuple(rel.split("/")), Meta(size=3), HashInfo(ename, dg))
                    t.digest()
                    odb.add(t.path, t.fs, t.oid)
                    return t.hash_info
                if listing and rng.random() < 0.25:
                    # a legal directory object in a non-canonical layout (other entry order / separators), filed under the
                    # digest of its own bytes - what another tool or an older version may have written
                    import hashlib as _h
                    import json as _j

                    lst = [{"relpath": r_, "md5": d_} for r_, d_ in listing.items()]
                    rng.shuffle(lst)
                    raw = _j.dumps(lst, separators=(",", ":")).encode()
                    oid = _h.md5(raw).hexdigest() + ".dir"  # noqa: S324
                    pth = odb.oid_to_path(oid)
                    os.makedirs(os.path.dirname(pth), exist_ok=True)
                    with open(pth, "wb") as f:
                        f.write(raw)
                    res.count("non_canonical_stored_listings")
                    return HashInfo("md5", oid)
                t = Tree()
                for rel, dg in listing.items():
                    t.add(tuple(rel.split("/")), Meta(size=3), HashInfo("md5", dg))
                t.digest()
                odb.add(t.path, t.fs, t.oid)
                return t.hash_info

            def rl():
                return well_formed({n: f"{rng.randrange(1, 4):032x}" for n in names if rng.random() < 0.6})

            anc = rl()

            def derive(allow_change):
                s = dict(anc)
                for n in names:
                    if n not in s and rng.random() < 0.4:
                        s[n] = f"{rng.randrange(1, 4):032x}"
                    elif n in s and allow_change and rng.random() < 0.2:
                        if rng.random() < 0.5:
                            del s[n]
                        else:
                            s[n] = f"{rng.randrange(4, 7):032x}"
                return well_formed(s)

            # (through the store also policies that do not allow additions)
            pol = rng.choice(POLICIES + [["remove"], ["change"], ["remove", "change"]])
            allow_ = pol is not None and (len(pol) > 1 or pol != ["add"])
            ours, theirs = derive(allow_), derive(allow_)
            if pol is not None and "add" not in pol and anc and rng.random() < 0.6:
                # one side only does what the policy allows, the other only adds (which it does not allow)
                ours = dict(anc)
                for n in rng.sample(sorted(anc), min(len(anc), rng.randrange(1, 3))):
                    if "remove" in pol and (("change" not in pol) or rng.random() < 0.5):
                        del ours[n]
                    else:
                        ours[n] = f"{rng.randrange(4, 7):032x}"
                theirs = dict(anc)
                for n in names:
                    if n not in theirs and rng.random() < 0.4:
                        theirs[n] = f"{rng.randrange(1, 4):032x}"
                ours, theirs = well_formed(ours), well_formed(theirs)
                res.count("disallowed_additions_next_to_allowed_operations")
            if rng.random() < 0.12 and "data" not in anc and "data/new" not in anc:
                # one side adds a file where the other side adds a directory of the same name (each listing is well-formed, the two together are not)
                ours.pop("data/new", None)
                theirs.pop("data", None)
                ours["data"] = f"{rng.randrange(1, 4):032x}"
                theirs["data/new"] = f"{rng.randrange(1, 4):032x}"
                res.count("file_on_one_side_directory_on_the_other")
            ff = rng.random()
            if ff < 0.15:
                ours = dict(anc)  # pure fast-forward
            elif ff < 0.3:
                theirs = dict(anc)
            with_anc = rng.random() < 0.8
            if not with_anc:
                anc = {}
                ours = ours or {"a": f"{1:032x}"}
                theirs = theirs or {"b": f"{2:032x}"}
            if not ours:
                ours = {"a": f"{1:032x}"}
            if not theirs:
                theirs = {"a": f"{1:032x}"}
            if with_anc and pol is not None and "remove" in pol and anc and rng.random() < 0.35:
                # an entry that both sides deleted (next to whatever else each side did)
                for n in rng.sample(sorted(anc), min(len(anc), rng.randrange(1, 3))):
                    ours.pop(n, None)
                    theirs.pop(n, None)
                res.count("common_deletion_cases")
                if not ours:
                    ours = {"a": f"{1:032x}"}
                if not theirs:
                    theirs = {"a": f"{1:032x}"}
            a_hi = mk(anc) if with_anc else None

            def mk_side(listing):
                if ename == "md5" and with_anc and anc and all(k in listing for k in anc) and rng.random() < 0.5:
                    # the side is derived the way an application would: load the ancestor's object, add / replace entries, store the result
                    t = Tree.load(odb, a_hi)
                    for rel, dg in listing.items():
                        if anc.get(rel) != dg:
                            # (metadata as a re-loaded listing would carry it)
                            t.add(tuple(rel.split("/")), Meta(md5=dg) if rng.random() < 0.7 else Meta(size=3), HashInfo("md5", dg))
                    t.digest()
                    odb.add(t.path, t.fs, t.oid)
                    res.count("sides_derived_from_loaded_ancestor")
                    return t.hash_info
                return mk(listing)

            o_hi, t_hi = mk_side(ours), mk_side(theirs)
            res.evaluated()
            res.count("merge_via_store")
            res.nontrivial("store", sorted(anc.items()), sorted(ours.items()), sorted(theirs.items()), pol)
            exp, conflicts = three_way(anc, ours, theirs)
            damaged = None
            if with_anc and anc and rng.random() < 0.2:
                # the ancestor's object is missing or truncated: any loud failure is fine, a silently different merge is not
                damaged = rng.choice(["missing", "truncated"])
                res.count("ancestor_unavailable_cases")
                ap = odb.oid_to_path(a_hi.value)
                import os as _os

                _os.chmod(ap, 0o644)
                if damaged == "missing":
                    _os.unlink(ap)
                else:
                    with open(ap, "wb") as f:
                        f.write(b"[{")
            if not damaged and with_anc and rng.random() < 0.5:
                # the same stored trees were merged before under a permissive policy (nothing remembered then may be reused now)
                res.count("policy_sequences")
                for pre_pol in (["add", "remove", "change"], rng.choice(POLICIES)):
                    try:
                        merge(odb, a_hi, o_hi, t_hi, allowed=pre_pol)
                    except Exception:  # noqa: BLE001
                        pass
            if rng.random() < 0.5:
                # the other argument order (the three-way rule is symmetric)
                o_hi, t_hi, ours, theirs = t_hi, o_hi, theirs, ours
            pol_arg = pol
            if pol is not None and rng.random() < (0.25 if "add" in pol else 0.6):
                # the policy handed over as a one-shot iterable (it may be refused more often that way - never less)
                pol_arg = rng.choice([lambda: iter(list(pol)), lambda: (x_ for x_ in list(pol)), lambda: map(str, list(pol))])()
                res.count("policies_as_one_shot_iterables")
            try:
                merged = merge(odb, a_hi, o_hi, t_hi, allowed=pol_arg)
            except MergeError:
                res.count("refused")
                ctx.drop(d)
                return
            except Exception as e:  # noqa: BLE001
                if damaged:
                    res.count("ancestor_unavailable_refused")
                    ctx.drop(d)
                    return
                shape = conflict_shape(anc, ours, theirs, conflicts)
                res.violation(f"non-MergeError-exception/{type(e).__name__}/{shape}",
                              f"merge() raised {type(e).__name__} instead of MergeError (conflict shape {shape})", case=case,
                              detail={"anc": anc, "ours": ours, "theirs": theirs, "policy": pol, "exc": repr(e)})
                ctx.drop(d)
                return
            got = {"/".join(k): hi.value for k, _m, hi in merged}
            if conflicts:
                res.violation("accepted-conflict/store", "merge() succeeded despite a conflict", case=case,
                              detail={"anc": anc, "ours": ours, "theirs": theirs, "policy": pol})
            elif got != exp:
                res.violation("wrong-result/store" + ("/ancestor-unavailable" if damaged else ""), "merge() result differs from the three-way merge", case=case,
                              detail={"anc": anc, "ours": ours, "theirs": theirs, "policy": pol, "got": got, "expected": exp})
            oo, to = side_ops(anc, ours), side_ops(anc, theirs)
            allowed = set(pol or ["add"])
            if not damaged and not conflicts and oo and to and not (oo <= allowed and to <= allowed):
                res.violation("policy-breach/store/" + ("default" if pol is None else "+".join(pol)),
                              f"merge() accepted a both-sides merge although a side did {sorted((oo | to) - allowed)}", case=case,
                              detail={"anc": anc, "ours": ours, "theirs": theirs, "policy": pol})
            if ename != "md5":
                names_ = {hi.name for _k, _m, hi in merged}
                if names_ - {ename}:
                    res.violation("wrong-result/store/hash-name-of-entries-changed", f"entries of the merged listing carry {sorted(names_)} instead of {ename}", case=case, detail={"policy": pol})
            elif merged.hash_info.value != canonical_dir_oid(got) or merged.oid != merged.hash_info.value:
                res.violation("merged-oid-not-canonical", "merged listing's identifier is not the canonical oid of its content",
                              case=case, detail={"got": merged.hash_info.value, "expected": canonical_dir_oid(got)})
            ctx.drop(d)

        ctx.guard(case, one)
