"""C20 - index and entry serialisation round-trips."""

import os

from .. import gen

RULE = (
    "case = random index of 1-40 entries (3 %: 998-2600 entries, around batch sizes and SQL parameter limits): every combination of optional Meta fields incl. falsy values (size 0, nfiles 0, '' "
    "strings, isexec False), hash under md5 / md5-dos2unix / sha256 / blake3 with and without '.dir', hash absent or with a None "
    "value, loaded in {None, True, False}, non-ASCII / control-character key parts, nested keys, a key that is a prefix of "
    "another; persisted through write_json/read_json, write_db/read_db and the SQLite-backed index (set, commit, close, reopen; "
    "also the empty root key; also an unloaded directory entry expanded lazily from a real directory object before commit), plus dict round trips of Meta / HashInfo / DataIndexEntry and Tree.from_list(as_list(with_meta)). "
    "non-trivial = at least one entry with metadata and hash; distinct = hash of the projected index"
)
ASSUMPTIONS = [
    "projection per entry = (serialisable metadata dict, hash dict, loaded flag); an all-default Meta and an absent Meta both project to {}",
    "for the two '/'-joined textual forms keys are non-empty and parts contain no '/' (as the property states)",
    "with-metadata listings are parsed back for hash names that Meta has a field for (md5, md5-dos2unix, etag, checksum); other names cannot be represented in that form",
]
MONITORS = "projection of every entry compared before/after each persistent form"
REQUIRED_COUNTERS = ["dicts_converted_twice", "trees_listed_again_after_an_entry_was_replaced", "db_locations_spelled_through_the_environment", "written_indexes_with_unloadable_directories", "writes_through_a_view", "sqlite_rollbacks", "large_indexes", "same_key_histories", "sqlite_lazy_roundtrips", "json_roundtrips", "db_roundtrips", "sqlite_roundtrips", "dict_roundtrips", "tree_list_roundtrips", "sqlite_root_key_cases", "falsy_field_entries"]


def mproj(m):
    """serialisable metadata read straight off the attributes (not through to_dict)"""
    if m is None:
        return (False, None, None, False, None, None, None, None, None)
    return (bool(m.isdir), m.size, m.nfiles, bool(m.isexec), m.version_id or None, m.etag or None, m.checksum or None,
            m.md5 or None, m.remote or None)


def hproj(h):
    if h is None or not h.value or not h.name:
        return None
    return (h.name, h.value)


def proj(e):
    return (mproj(e.meta), hproj(e.hash_info), e.loaded)


def field_of(name):
    return "md5" if name.startswith("md5") else name


def run_shard(ctx):
    from dvc_data.hashfile.hash_info import HashInfo
    from dvc_data.hashfile.meta import Meta
    from dvc_data.hashfile.tree import Tree
    from dvc_data.index import DataIndex, DataIndexEntry, read_db, read_json, write_db, write_json

    res = ctx.res
    d = ctx.fresh("s")

    def rmeta(rng):
        if rng.random() < 0.1:
            return None
        kw = {}
        if rng.random() < 0.3:
            kw["isdir"] = rng.random() < 0.7
        if rng.random() < 0.6:
            kw["size"] = rng.choice([0, 0, 1, 5, 2**31, 2**40 + 3])
        if rng.random() < 0.3:
            kw["nfiles"] = rng.choice([0, 1, 7])
        if rng.random() < 0.3:
            kw["isexec"] = rng.random() < 0.6
        for f in ("version_id", "etag", "checksum", "md5", "remote"):
            if rng.random() < 0.2:
                kw[f] = rng.choice(["", "abc", "d41d8cd98f00b204e9800998ecf8427e", "é😀", "null", "0", '"0x8DABCDEF"', '"quoted"', 'W/"weak"', '"'])
        if rng.random() < 0.15:
            kw["inode"] = rng.randrange(10**9)
            kw["mtime"] = rng.random() * 1e9
        if any(v in (0, "", False) for v in kw.values()):
            res.count("falsy_field_entries")
        return Meta(**kw)

    def rhash(rng, isdir=False):
        r = rng.random()
        if r < 0.15:
            return None
        if r < 0.2:
            return HashInfo(rng.choice(["md5", None]), None)
        name = rng.choice(["md5", "md5", "md5-dos2unix", "sha256", "blake3", "etag"])
        val = "%032x" % rng.getrandbits(128)
        if isdir or rng.random() < 0.15:
            val += ".dir"
        return HashInfo(name, val)

    def rindex(rng, allow_root):
        n = rng.randrange(1, 41) if rng.random() < 0.7 else rng.randrange(1, 6)
        if rng.random() < 0.03:
            # a large index, around the batch sizes / SQL parameter limits a persistent form may use
            n = rng.choice([998, 999, 1000, 1001, 1024, 2000, 2001, 2600])
            res.count("large_indexes")
        entries = {}
        keys = []
        for _ in range(n):
            if keys and rng.random() < 0.4:
                base = rng.choice(keys)
                k = (*base, gen.name(rng, odd=0.4))
            else:
                k = tuple(gen.name(rng, odd=0.4) for _ in range(rng.randrange(1, 4)))
            if len(k) > 6:
                continue
            keys.append(k)
            m = rmeta(rng)
            e = DataIndexEntry(key=k, meta=m, hash_info=rhash(rng, bool(m and m.isdir and rng.random() < 0.5)), loaded=rng.choice([None, True, False]))
            entries[k] = e
        if allow_root and rng.random() < 0.5:
            entries[()] = DataIndexEntry(key=(), meta=Meta(isdir=True, nfiles=0), hash_info=rhash(rng, True), loaded=rng.choice([None, True]))
            res.count("sqlite_root_key_cases")
        return entries

    def compare(before, idx, form, case):
        after = {k: proj(e) for k, e in idx.iteritems()}
        if before.keys() != after.keys():
            res.violation(f"{form}/keys-differ", f"keys lost={sorted(before.keys() - after.keys())[:2]} invented={sorted(after.keys() - before.keys())[:2]}",
                          case=case, detail={"before": list(before)[:10]})
            return
        for k in before:
            if before[k] != after[k]:
                which = [n for n, a, b in zip(("meta", "hash", "loaded"), before[k], after[k]) if a != b]
                res.violation(f"{form}/entry-differs/{'+'.join(which)}", f"{k}: {before[k]} -> {after[k]}", case=case,
                              detail={"key": k, "before": before[k], "after": after[k]})
                return

    for case, rng in ctx.cases(ctx.plan["n"]):

        def one(case=case, rng=rng):
            form = ["json", "db", "sqlite", "dicts", "tree", "sqlite-lazy"][case % 6]
            res.evaluated()
            if form in ("json", "db"):
                entries = rindex(rng, False)
                idx = DataIndex(entries)
                before = {k: proj(e) for k, e in entries.items()}
                if rng.random() < 0.2:
                    # the index knows where its data is stored, but its directory objects are not there (not fetched yet), and the
                    # owner's error hook swallows the load failures (as the collecting code's own hook does): every entry is written
                    from dvc_data.index import ObjectStorage

                    from .. import env as _env

                    idx.storage_map.add_cache(ObjectStorage((), _env.local_odb(os.path.join(d, f"empty-cache{case}"))))
                    idx.onerror = lambda *a, **kw: res.count("load_failures_swallowed_while_writing")
                    res.count("written_indexes_with_unloadable_directories")
                if any(p[0] != mproj(None) and p[1] for p in before.values()):
                    res.nontrivial(form, sorted(before.items(), key=repr))
                res.sample({"form": form, "entries": len(entries), "example": [["/".join(k), before[k]] for k in list(before)[:2]]})
                p = os.path.join(d, f"{form}{case}")
                if form == "json":
                    write_json(idx, p)
                    back = read_json(p)
                    res.count("json_roundtrips")
                    os.unlink(p)
                else:
                    ps = p
                    if rng.random() < 0.15:
                        # the database location is spelled through the environment (the backend expands '~' and '$NAME')
                        if rng.random() < 0.5:
                            os.environ["VERIF_C20_DIR"] = d
                            ps = os.path.join("$VERIF_C20_DIR", os.path.basename(p))
                        elif os.environ.get("HOME"):
                            os.environ["HOME"] = d
                            ps = os.path.join("~", os.path.basename(p))
                        res.count("db_locations_spelled_through_the_environment")
                    home0 = os.environ.get("HOME")
                    try:
                        write_db(idx, ps)
                        back = read_db(ps)
                    finally:
                        if home0 is not None:
                            os.environ["HOME"] = home0
                    res.count("db_roundtrips")
                    if ps != p and not os.path.isdir(p):
                        raise AssertionError(f"harness: {ps} did not expand to {p}")
                    ctx.drop(p)
                compare(before, back, form, case)
            elif form == "sqlite":
                entries = rindex(rng, True)
                before = {k: proj(e) for k, e in entries.items()}
                if any(p[0] != mproj(None) and p[1] for p in before.values()):
                    res.nontrivial(form, sorted(before.items(), key=repr))
                p = os.path.join(d, f"idx{case}.db")
                idx = DataIndex.open(p)
                order = list(entries.items())
                rng.shuffle(order)
                overwritten = 0
                for k, e in order:
                    if rng.random() < 0.1:
                        # set twice: a stale identity-cache entry must not survive __setitem__
                        idx[k] = DataIndexEntry(key=k, meta=Meta(size=999), hash_info=HashInfo("md5", "0" * 32))
                        if rng.random() < 0.5:
                            _ = idx._trie.get(k) if hasattr(idx, "_trie") else None
                        overwritten += 1
                    idx[k] = e
                if rng.random() < 0.3 and len(order) > 1:
                    k = order[0][0]
                    del idx[k]
                    before.pop(k)
                # multi-step histories on one key inside one session
                for k, e in order[1:4]:
                    if k not in before or k == ():
                        continue
                    r = rng.random()
                    if r < 0.25 and e.meta is not None:
                        # overwrite with an entry that differs only in a serialised field that equality ignores
                        import copy as _c

                        e2 = _c.deepcopy(e)
                        e2.meta.remote = rng.choice(["origin", "backup"]) if not e.meta.remote else None
                        idx[k] = e2
                        before[k] = proj(e2)
                        res.count("same_key_histories")
                    elif r < 0.5:
                        # read, mutate in place, store back
                        cur = idx[k]
                        if cur.meta is None:
                            cur.meta = Meta()
                        cur.meta.size = (cur.meta.size or 0) + 7
                        cur.loaded = True
                        idx[k] = cur
                        before[k] = proj(cur)
                        res.count("same_key_histories")
                    elif r < 0.65 and len(k) >= 2 and k[:-1] not in entries:
                        # the parent node is dropped wholesale, then the child is stored again
                        try:
                            idx.delete_node(k[:-1])
                        except KeyError:
                            continue
                        for kk in list(before):
                            if kk[: len(k) - 1] == k[:-1]:
                                before.pop(kk)
                        idx[k] = e
                        before[k] = proj(e)
                        res.count("same_key_histories")
                view_written = set()  # (the parent's identity cache does not see these until it is reopened: only the persisted form is judged for them)
                if rng.random() < 0.25:
                    # some entries are written through a sub-index view (as the collector of storage indexes does) and committed through the parent
                    for k, e in order[:4]:
                        if len(k) >= 2 and k in before:
                            idx.commit()  # (the parent has nothing pending of its own when the view writes)
                            sub = idx.view(k[:1])
                            e3 = DataIndexEntry(key=k[1:], meta=Meta(size=31337), hash_info=HashInfo("md5", "a" * 32), loaded=True)
                            sub[k[1:]] = e3
                            before[k] = proj(e3)
                            view_written.add(k)
                            res.count("writes_through_a_view")
                idx.commit()
                rolled = False
                if rng.random() < 0.3 and before:
                    # further writes that are rolled back: the live index and the persisted one both show the committed state
                    for k, e in order[:3]:
                        if k in before and k != ():
                            idx[k] = DataIndexEntry(key=k, meta=Meta(size=424242), hash_info=HashInfo("md5", "f" * 32))
                    idx.rollback()
                    rolled = True
                    res.count("sqlite_rollbacks")
                if rolled or rng.random() < 0.5:
                    same = {k: proj(e) for k, e in idx.iteritems() if k not in view_written}
                    if same != {k: v for k, v in before.items() if k not in view_written}:
                        res.violation("sqlite/read-before-close-differs" + ("/after-rollback" if rolled else ""), "index differs from what was set and committed, before close", case=case,
                                      detail={"n": len(before)})
                idx.close()
                back = DataIndex.open(p)
                res.count("sqlite_roundtrips")
                compare(before, back, "sqlite", case)
                back.close()
                for f in os.listdir(d):
                    if f.startswith(f"idx{case}.db"):
                        os.unlink(os.path.join(d, f))
            elif form == "sqlite-lazy":
                # an unloaded directory entry that is expanded lazily between set and commit: what is persisted
                # must be what the live index shows
                from dvc_data.index import ObjectStorage

                from .. import env, indexlab

                dd = ctx.fresh("lz")
                cache = env.local_odb(os.path.join(dd, "cache"))
                files, _e = gen.tree(rng, depth=rng.randrange(1, 3), fanout=3, odd=0.3, min_files=2, empty_dirs=False)
                top = gen.name(rng, odd=0.3)
                files = {(top, *k): v for k, v in files.items()}
                indexlab.save_tree_to_cache(ctx, cache, {k[1:]: v for k, v in files.items()}, dd)
                oid = indexlab.put_dir_object(cache, files, (top,))
                p = os.path.join(dd, "lazy.db")
                idx = DataIndex.open(p)
                idx.storage_map.add_cache(ObjectStorage(key=(), odb=cache))
                idx[(top,)] = DataIndexEntry(key=(top,), meta=Meta(isdir=True), hash_info=HashInfo("md5", oid))
                extra = rindex(rng, False)
                for k, e in extra.items():
                    if k[0] != top:
                        if e.meta and e.meta.isdir:
                            e.loaded = True  # nothing to expand for these (their random ids are in no store)
                        idx[k] = e
                idx.commit()
                how = rng.choice(["iteritems", "getitem", "ls", "load"])
                if how == "iteritems":
                    list(idx.iteritems())
                elif how == "getitem":
                    _ = idx[sorted(files)[0]]
                elif how == "ls":
                    list(idx.ls((top,), detail=False))
                else:
                    idx.load()
                live = {k: proj(e) for k, e in idx.iteritems()}
                res.nontrivial("sqlite-lazy", sorted(live.items(), key=repr), how)
                res.sample({"form": form, "loaded_by": how, "entries": len(live)})
                idx.commit()
                idx.close()
                back = DataIndex.open(p)  # no storage attached: walking it shows exactly what was persisted
                res.count("sqlite_lazy_roundtrips")
                compare(live, back, "sqlite-lazy", case)
                back.close()
                env.reset_staging()
                ctx.drop(dd)
            elif form == "dicts":
                for _ in range(20):
                    m = rmeta(rng)
                    h = rhash(rng)
                    e = DataIndexEntry(key=("k",), meta=m, hash_info=h, loaded=rng.choice([None, True, False]))
                    res.count("dict_roundtrips")
                    res.evaluated()
                    res.nontrivial("dicts", repr(m), repr(h), e.loaded)
                    if m is not None and mproj(Meta.from_dict(m.to_dict())) != mproj(m):
                        res.violation("dicts/meta", f"Meta dict round trip lossy: {m.to_dict()}", case=case, detail={"meta": repr(m)})
                    if h is not None and hproj(HashInfo.from_dict(h.to_dict())) != hproj(h):
                        res.violation("dicts/hash-info", f"HashInfo dict round trip lossy: {h.to_dict()}", case=case, detail={"hash": repr(h)})
                    e2 = DataIndexEntry.from_dict(e.to_dict())
                    if proj(e2) != proj(e):
                        res.violation("dicts/entry", f"entry dict round trip lossy: {proj(e)} -> {proj(e2)}", case=case, detail={"entry": repr(e)})
                    # one decoded dictionary may be converted more than once (it fills two indexes, say): same answer each time
                    d_ = e.to_dict()
                    first_, second_ = DataIndexEntry.from_dict(d_), DataIndexEntry.from_dict(d_)
                    res.count("dicts_converted_twice")
                    if proj(first_) != proj(e) or proj(second_) != proj(e):
                        res.violation("dicts/entry/converted-twice", f"the same entry dictionary converted twice: {proj(first_)} then {proj(second_)}, written from {proj(e)}", case=case, detail={"entry": repr(e)})
                    if h is not None:
                        hd_ = h.to_dict()
                        if hproj(HashInfo.from_dict(hd_)) != hproj(h) or hproj(HashInfo.from_dict(hd_)) != hproj(h):
                            res.violation("dicts/hash-info/converted-twice", f"the same HashInfo dictionary converted twice differs: {h.to_dict()}", case=case, detail={"hash": repr(h)})
            else:
                # hash names that a with-metadata listing can carry are the ones Meta has a field for
                name = rng.choice(["md5", "md5-dos2unix", "etag", "checksum"])
                t = Tree()
                exp = {}
                for _ in range(rng.randrange(1, 12)):
                    k = tuple(gen.name(rng, odd=0.4) for _ in range(rng.randrange(1, 4)))
                    m = rmeta(rng) or Meta()
                    m.isdir = False
                    field = "md5" if name.startswith("md5") else name
                    val = "%032x" % rng.getrandbits(128)
                    # the Meta may itself carry a value under the hash's name (e.g. the raw-bytes md5 reported by a remote for an
                    # md5-dos2unix entry): that slot belongs to the hash in the listing; the hash must win
                    setattr(m, field, rng.choice([None, None, "%032x" % rng.getrandbits(128), val[:-2] + "-2"]))
                    h = HashInfo(name, val)
                    t.add(k, m, h)
                    import copy as _c

                    mm = _c.copy(m)
                    setattr(mm, field, None)
                    exp[k] = (mproj(mm), val)
                res.count("tree_list_roundtrips")
                res.nontrivial("tree", sorted(exp.items(), key=repr), name)
                if rng.random() < 0.4:
                    # the tree has been listed before and one of its entries replaced since (same number of entries)
                    t.as_list(with_meta=True)
                    t.as_list()
                    k = rng.choice(sorted(exp))
                    m = rmeta(rng) or Meta()
                    m.isdir = False
                    val = "%032x" % rng.getrandbits(128)
                    setattr(m, field, None)
                    t.add(k, m, HashInfo(name, val))
                    exp[k] = (mproj(m), val)
                    res.count("trees_listed_again_after_an_entry_was_replaced")
                back = Tree.from_list(t.as_list(with_meta=True), hash_name=name)
                got = {}
                for k, m2, h2 in back:
                    setattr(m2, field_of(name), None)  # the digest travels in the Meta field of its name
                    got[k] = (mproj(m2), h2.value)
                    if h2.name != name:
                        res.violation("tree/hash-name", f"entry parsed back under {h2.name}, written under {name}", case=case)
                if got != exp:
                    bad = [k for k in exp if got.get(k) != exp[k]][:1]
                    res.violation("tree/list-roundtrip", f"listing written with metadata does not parse back to the same entries: {bad} {exp.get(bad[0]) if bad else ''} -> {got.get(bad[0]) if bad else ''}",
                                  case=case, detail={"name": name})

        ctx.guard(case, one)
