"""C13 - cached and carried-over hashes are never stale."""

import json
import os

from .. import env, gen
from ..oracle import H, file_bytes, stat_token

RULE = (
    "case = history of 12-40 events over 5-30 files (a fifth of them symbolic links to files elsewhere): mutations {grow, shrink, same-size rewrite in place, replace-by-rename "
    "(same or other size), touch, delete, re-create (inode reuse happens naturally)} interleaved with queries {raw State.get, "
    "State.get_many vs get at the same instant, hash_file(state) under md5 / sha256 / md5-dos2unix / blake3 on the same paths with "
    "fresh or caller-supplied stat info, _get_hashes, staging a directory with a state-carrying store, index md5() on a fresh index or on an index object built before later mutations, the batched lookups on a memfs path with caller-supplied listing infos around a same-size overwrite, an object checkout one of whose links fails while a user file sits at that path (object-level checkout with an outdated old=, index-level apply after compare), index "
    "update(new, old) after mutating between the two builds, a query during which another writer rewrites a file right after it was read}; injected rows {legacy without version, version 2, another "
    "algorithm, garbage JSON}; a memfs path equal to a local path string; batches of 998/999/1000/1001/2100 files across the "
    "SQL-parameter boundary with a mutated prefix; tmpfs and ext4 scratch.  Every answer is compared with hashlib on the bytes read "
    "immediately afterwards.  non-trivial = at least one mutation between two queries of the same path; distinct = (event history)"
)
ASSUMPTIONS = [
    "the quantifier covers mutations that change size, mtime or inode: after each mutation the harness compares the stat token and nudges mtime by 1us if the kernel gave an identical one (counted as forced_mtime_bumps)",
    "single-threaded: the bytes read right after an answer are the bytes the answer was about",
]
MONITORS = "every (meta, hash) obtained through the state cache or carried over by update() compared with hashlib at the same instant"
REQUIRED_COUNTERS = ["field_shift_rewrites", "index_md5_on_an_already_hashed_index", "incremental_checkouts", "checkouts_with_agreeing_prompt_asked", "re_adds_into_a_verifying_store", "legacy_store_checkouts", "failed_adds_over_an_existing_path", "failed_create_index_checkouts_with_meta_update", "batched_lookups_of_legacy_rows", "alias_path_queries", "index_update_with_swap_during_md5", "index_md5_on_reused_index", "memfs_batched_queries", "failed_link_checkouts", "failed_create_index_checkouts", "large_file_cases", "index_update_with_reloaded_old_index", "racing_writer_queries", "symlinked_files", "answers_checked", "state_hits_checked", "mutations", "get_vs_get_many_compared", "staging_listings_checked", "index_md5_checked",
                     "index_update_carried_checked", "injected_rows", "memfs_queries", "batch_boundary_cases", "mutations_between_queries", "ext4_cases"]

ALGOS = ["md5", "sha256", "md5-dos2unix", "blake3"]


def run_shard(ctx):
    from dvc_objects.fs import MemoryFileSystem

    from dvc_data.fsutils import _localfs_info
    from dvc_data.hashfile.build import _get_hashes, build
    from dvc_data.hashfile.hash import hash_file
    from dvc_data.index import build as ibuild
    from dvc_data.index import md5 as imd5
    from dvc_data.index import update as iupdate

    res = ctx.res
    fs = env.localfs()
    memfs = MemoryFileSystem()

    seen_tokens = {}
    shift_clock = [0]

    def mutate(rng, path, data, kind):
        """-> new bytes or None (deleted)"""
        before = stat_token(path) if os.path.exists(path) else None
        if kind == "grow":
            new = data + gen.small_content(rng)[:50] + b"+"
            with open(path, "ab") as f:
                f.write(new[len(data):])
        elif kind == "shrink":
            new = data[: len(data) // 2]
            if new == data:
                new = data + b"x"
                with open(path, "wb") as f:
                    f.write(new)
            else:
                os.truncate(path, len(new))
        elif kind == "same-size":
            if not data:
                new = b""
                os.utime(path)
            else:
                i = rng.randrange(len(data))
                new = data[:i] + bytes([(data[i] + 1) % 256]) + data[i + 1 :]
                with open(path, "r+b") as f:
                    f.seek(i)
                    f.write(new[i : i + 1])
        elif kind == "rename-same-size":
            new = bytes((b + 1) % 256 for b in data) if data else b""
            gen.replace_by_rename(path, new)
        elif kind == "rename-other":
            new = gen.small_content(rng) + b"r"
            gen.replace_by_rename(path, new)
        elif kind == "rename-keep-mtime-size":
            # only the inode changes (cp -p / rsync then mv)
            new = bytes((b + 7) % 256 for b in data) if data else b""
            st = os.stat(path)
            tmp = path + ".verif-new"
            with open(tmp, "wb") as f:
                f.write(new)
            os.utime(tmp, ns=(st.st_atime_ns, st.st_mtime_ns))
            os.replace(tmp, path)
        elif kind == "grow-keep-mtime":
            # only the size changes
            st = os.stat(path)
            new = data + b"g"
            with open(path, "ab") as f:
                f.write(b"g")
            os.utime(path, ns=(st.st_atime_ns, st.st_mtime_ns))
        elif kind == "rename-same-size-readonly":
            # a write-protected file is replaced (rename needs no write permission on the file) by another write-protected one of the same size
            new = bytes((b + 3) % 256 for b in data) if data else b""
            tmp = path + ".verif-ro"
            with open(tmp, "wb") as f:
                f.write(new)
            os.chmod(tmp, 0o444)
            os.replace(tmp, path)
        elif kind == "truncate-to-zero-keep-mtime":
            # only the size changes, down to exactly nothing
            st = os.stat(path)
            new = b""
            os.truncate(path, 0)
            os.utime(path, ns=(st.st_atime_ns, st.st_mtime_ns))
        elif kind == "touch":
            new = data
            st = os.stat(path)
            os.utime(path, ns=(st.st_atime_ns, st.st_mtime_ns + rng.choice([1000, 10**9, -(10**9)])))
        elif kind == "delete":
            os.unlink(path)
            return None
        else:
            raise ValueError(kind)
        if before is not None and new != data and gen.ensure_token_changed(path, before):
            res.count("forced_mtime_bumps")
        # ABA: a freed inode number can be handed out again; together with a preserved mtime and size the file would
        # then carry a token it already carried with other bytes - such a mutation does not change (inode, mtime, size)
        # with respect to that earlier state and is outside the quantifier: nudge mtime until the token is new
        seen = seen_tokens.setdefault(path, set())
        if before is not None:
            seen.add(before)
        tok = stat_token(path)
        while tok in seen and new != data:
            st = os.stat(path)
            os.utime(path, ns=(st.st_atime_ns, st.st_mtime_ns + 1000))
            tok = stat_token(path)
            res.count("forced_mtime_bumps_inode_reuse")
        seen.add(tok)
        return new

    from dvc_objects.fs.local import LocalFileSystem

    class _CloseHook:
        """file proxy: runs `hook` right after the reader has closed the file (another process writing at that moment)"""

        def __init__(self, f, hook):
            self._f, self._hook = f, hook

        def __getattr__(self, n):
            return getattr(self._f, n)

        def __enter__(self):
            self._f.__enter__()
            return self

        def __exit__(self, *a):
            r = self._f.__exit__(*a)
            self._fire()
            return r

        def __iter__(self):
            return iter(self._f)

        def close(self):
            self._f.close()
            self._fire()

        def _fire(self):
            if self._hook is not None:
                h, self._hook = self._hook, None
                h()

    class RacingFS(LocalFileSystem):
        """a local filesystem on which chosen files are rewritten by 'someone else' just after dvc-data has read them"""

        hooks = {}

        def open(self, path, mode="r", **kwargs):
            f = super().open(path, mode, **kwargs)
            if "r" in mode and path in self.hooks:
                return _CloseHook(f, self.hooks.pop(path))
            return f

    for case, rng in ctx.cases(ctx.plan["n"]):

        def one(case=case, rng=rng):
            on_disk = case % 5 == 2
            d = ctx.fresh("s", disk=on_disk)
            if on_disk:
                res.count("ext4_cases")
            wdir = os.path.join(d, "w")
            os.makedirs(wdir)
            state = env.mk_state(d, os.path.join(d, "tmp"))
            odb = env.local_odb(os.path.join(d, "cache"), state=state)
            batch = case % 8 == 1
            nfiles = rng.choice([998, 999, 1000, 1001, 2100]) if batch else rng.randrange(5, 31)
            if batch:
                res.count("batch_boundary_cases")
            cur = {}
            for i in range(nfiles):
                nm = f"f{i:04d}" if batch else gen.name(rng, used={os.path.basename(p) for p in cur}, odd=0.3)
                p = os.path.join(wdir, nm)
                data = (b"%d" % i) if batch else gen.small_content(rng)
                if not batch and rng.random() < 0.2:
                    # a symbolic link to a file elsewhere: answers are about the target's bytes
                    tdir = os.path.join(d, "targets")
                    os.makedirs(tdir, exist_ok=True)
                    tgt = os.path.join(tdir, f"t{i}")
                    with open(tgt, "wb") as f:
                        f.write(data)
                    os.symlink(tgt, p)
                    res.count("symlinked_files")
                else:
                    with open(p, "wb") as f:
                        f.write(data)
                cur[p] = data
            if not batch and rng.random() < 0.06:
                # several files above the large-file thresholds in the one directory (unordered parallel hashing)
                for j, c in enumerate(gen.big_files(rng)):
                    bp = os.path.join(wdir, f"big{j}.bin")
                    with open(bp, "wb") as f:
                        f.write(c)
                    cur[bp] = c
                res.count("large_file_cases")
            hist = []
            kept = {"idx": None}
            seen_tokens.clear()
            last_q = {}  # path -> mutation count at last query
            mcount = {p: 0 for p in cur}

            def note_query(paths):
                hit = False
                for p in paths:
                    if p in last_q and mcount.get(p, 0) > last_q[p]:
                        res.count("mutations_between_queries")
                        hit = True
                    last_q[p] = mcount.get(p, 0)
                if hit:
                    res.nontrivial(case, len(hist))  # this query saw a path mutated since it was last asked about

            def verify(p, name, value, how, hit=False):
                res.count("answers_checked")
                if hit:
                    res.count("state_hits_checked")
                actual = H(name, file_bytes(p))
                if value != actual:
                    muts = [h for h in hist if h[0] == "mutate" and h[2] == os.path.basename(p)][-2:]
                    res.violation(
                        f"stale-hash/{how}/{muts[-1][1] if muts else 'no-mutation'}",
                        f"{how} answered {name}:{value} for {os.path.basename(p)}, current bytes hash to {actual}",
                        case=case, detail={"history": hist[-12:], "on_ext4": on_disk},
                    )

            nev = rng.randrange(12, 41) if not batch else 8
            for _ev in range(nev):
                paths = sorted(cur)
                r = rng.random()
                if r < 0.45 and paths:
                    # ---- mutation(s)
                    if batch:
                        victims = paths[: rng.choice([1, 5, 998, 999, 1000])] if rng.random() < 0.7 else rng.sample(paths, 20)
                        kind = rng.choice(["same-size", "rename-same-size", "grow", "rename-keep-mtime-size"])
                    else:
                        victims = rng.sample(paths, rng.randrange(1, min(4, len(paths)) + 1))
                        kind = None
                    for p in victims:
                        k = kind or rng.choice(["grow", "shrink", "same-size", "same-size", "rename-same-size", "rename-other", "touch", "delete", "rename-keep-mtime-size", "grow-keep-mtime", "truncate-to-zero-keep-mtime", "rename-same-size-readonly"])
                        if os.path.islink(p) and k == "rename-same-size-readonly":
                            k = "rename-same-size"
                        new = mutate(rng, p, cur[p], k)
                        res.count("mutations")
                        mcount[p] = mcount.get(p, 0) + 1
                        if not batch or p == victims[0]:
                            hist.append(["mutate", k, os.path.basename(p)])
                        if new is None:
                            del cur[p]
                            if rng.random() < 0.7:
                                # re-create under the same name (the freed inode is often reused)
                                new = gen.small_content(rng) + b"n"
                                with open(p, "wb") as f:
                                    f.write(new)
                                cur[p] = new
                                hist.append(["re-create", "", os.path.basename(p)])
                        else:
                            cur[p] = new
                    continue
                q = rng.choice(["hash_file", "hash_file", "field-shift", "get", "get_many", "_get_hashes", "build", "index_md5", "index_update", "inject", "memfs", "racing-writer", "checkout-failed-link", "index-checkout-failed-create", "alias-through-dir-symlink", "add-failed-over-existing-path", "legacy-store-checkout", "re-add-into-verifying-store", "checkout-with-agreeing-prompt", "index-md5-twice", "incremental-checkout"])
                if batch and q in ("build", "index_md5", "index_update"):
                    q = "get_many"
                hist.append(["query", q, ""])
                res.evaluated()
                if q == "field-shift" and paths and not all(os.path.islink(x) for x in paths):
                    # two states of one inode whose (mtime, size) differ in BOTH fields, but whose printed digits run into one another
                    # the same way ("...0.5"+"6255" / "...0.5625"+"5"; "...0.25"+"781253" / "...0.2578125"+"3"): every field changed,
                    # so the remembered hash must not be served
                    p = rng.choice([x for x in paths if not os.path.islink(x)])
                    frac_a, frac_b, dig = rng.choice([(500_000_000, 562_500_000, "625"), (250_000_000, 257_812_500, "78125"), (500_000_000, 531_250_000, "3125")])
                    s_b = rng.randrange(1, 10)
                    s_a = int(dig + str(s_b))
                    shift_clock[0] += 1
                    t = (int(os.stat(p).st_mtime) + 10 + shift_clock[0]) * 10**9
                    first = rng.randbytes(s_a)
                    with open(p, "wb") as f:
                        f.write(first)
                    os.utime(p, ns=(t, t + frac_a))
                    cur[p] = first
                    seen_tokens.setdefault(p, set()).add(stat_token(p))
                    hist.append(["mutate", "field-shift/prepare", os.path.basename(p)])
                    name = rng.choice(ALGOS)
                    _m, hi = hash_file(p, fs, name, state=state)
                    note_query([p])
                    verify(p, name, hi.value, "hash_file")
                    os.truncate(p, s_b)
                    os.utime(p, ns=(t, t + frac_b))
                    cur[p] = first[:s_b]
                    seen_tokens[p].add(stat_token(p))
                    mcount[p] = mcount.get(p, 0) + 2
                    res.count("mutations", 2)
                    res.count("field_shift_rewrites")
                    hist.append(["mutate", "field-shift", os.path.basename(p)])
                    _m, hi = hash_file(p, fs, name, state=state)
                    note_query([p])
                    verify(p, name, hi.value, "hash_file")
                    _m, hi = state.get(p, fs)
                    if hi is not None:
                        verify(p, hi.name, hi.value, "State.get", hit=True)
                elif q == "hash_file" and paths:
                    for p in rng.sample(paths, min(len(paths), 4)):
                        name = rng.choice(ALGOS)
                        info = _localfs_info(p) if rng.random() < 0.5 else None
                        meta, hi = hash_file(p, fs, name, state=state, info=info)
                        note_query([p])
                        if hi.name != name:
                            res.violation("wrong-algorithm-returned/hash_file", f"asked {name}, got {hi.name}", case=case, detail={"history": hist[-8:]})
                        verify(p, name, hi.value, "hash_file")
                        if meta.size != len(cur[p]):
                            res.violation("stale-size/hash_file", f"meta.size {meta.size} != {len(cur[p])}", case=case, detail={"history": hist[-8:]})
                elif q == "get" and paths:
                    for p in rng.sample(paths, min(len(paths), 6)):
                        meta, hi = state.get(p, fs)
                        note_query([p])
                        if hi is not None:
                            verify(p, hi.name, hi.value, "State.get", hit=True)
                elif q == "get_many" and paths:
                    sel = paths if batch else rng.sample(paths, rng.randrange(1, len(paths) + 1))
                    rng.shuffle(sel)
                    infos = {p: _localfs_info(p) for p in sel} if rng.random() < 0.6 else {}
                    many = {p: (m, h) for p, m, h in state.get_many(sel, fs, infos)}
                    note_query(sel)
                    if set(many) != set(sel):
                        res.violation("get_many-keys", "get_many did not answer exactly the queried paths", case=case, detail={"n": len(sel)})
                    for p in sel if not batch else (sel[:40] + sel[990:1010] + sel[-40:]):
                        m1, h1 = many.get(p, (None, None))
                        m2, h2 = state.get(p, fs)
                        res.count("get_vs_get_many_compared")
                        if (h1 is None) != (h2 is None) or (h1 is not None and (h1.name, h1.value) != (h2.name, h2.value)):
                            res.violation("get-vs-get_many-disagree", f"{os.path.basename(p)}: get_many {h1} vs get {h2}", case=case,
                                          detail={"history": hist[-8:], "n": len(sel)})
                    for p in sel:
                        h1 = many.get(p, (None, None))[1]
                        if h1 is not None:
                            verify(p, h1.name, h1.value, "State.get_many", hit=True)
                elif q == "_get_hashes" and paths:
                    sel = paths if batch else rng.sample(paths, rng.randrange(1, len(paths) + 1))
                    name = rng.choice(ALGOS)
                    infos = {p: _localfs_info(p) for p in sel}
                    out = _get_hashes(list(sel), fs, name, infos, state=state, jobs=rng.choice([None, 1, 4]))
                    note_query(sel)
                    for p in sel:
                        if p not in out:
                            res.violation("_get_hashes-missing-path", "a queried path has no answer", case=case)
                            continue
                        if out[p][1].name != name:
                            res.violation("wrong-algorithm-returned/_get_hashes", f"asked {name}, got {out[p][1].name}", case=case, detail={"history": hist[-8:]})
                        verify(p, name, out[p][1].value, "_get_hashes")
                elif q == "build" and paths:
                    _st, _m, obj = build(odb, wdir, fs, "md5", dry_run=rng.random() < 0.5)
                    note_query(paths)
                    res.count("staging_listings_checked")
                    got = {os.path.join(wdir, *k): hi.value for k, _mm, hi in obj}
                    for p in paths:
                        if p not in got:
                            res.violation("staging-missing-path", f"{os.path.basename(p)} not in the staged listing", case=case)
                        else:
                            verify(p, "md5", got[p], "staging")
                elif q == "index_md5" and paths:
                    if kept["idx"] is not None and rng.random() < 0.6:
                        # an index object built earlier (before later mutations) is hashed now, through the same state
                        idx = imd5(kept["idx"], state=state)
                        how_ = "index.md5/index-built-earlier"
                        res.count("index_md5_on_reused_index")
                    else:
                        fresh = ibuild(wdir, fs)
                        idx = imd5(fresh, state=state)
                        how_ = "index.md5"
                        if kept["idx"] is None or rng.random() < 0.3:
                            kept["idx"] = fresh
                    note_query(paths)
                    res.count("index_md5_checked")
                    for k, e in idx.iteritems():
                        pk = os.path.join(wdir, *k)
                        if e.hash_info and os.path.isfile(pk):
                            verify(pk, e.hash_info.name, e.hash_info.value, how_)
                elif q == "index_update" and paths and rng.random() < 0.25:
                    # between building the old index and hashing it, a file is moved away and other bytes of the same size sit at its
                    # path; afterwards the original file is moved back (its inode, mtime and size are what the old index recorded)
                    res.count("index_update_with_swap_during_md5")
                    built = ibuild(wdir, fs)
                    cands = [p for p in paths if not os.path.islink(p) and cur[p]]
                    swapped = rng.sample(cands, min(len(cands), rng.randrange(1, 3)))
                    for p in swapped:
                        os.replace(p, p + ".verif-away")
                        with open(p, "wb") as f:
                            f.write(bytes((b + 5) % 256 for b in cur[p]))
                    hashed = imd5(built, state=state if rng.random() < 0.5 else None)
                    for p in swapped:
                        os.replace(p + ".verif-away", p)
                    hist.append(["mutate", "swap-away-and-back-around-md5", ",".join(os.path.basename(p) for p in swapped)])
                    new = ibuild(wdir, fs)
                    iupdate(new, hashed)
                    note_query(paths)
                    for k, e in new.iteritems():
                        if e.hash_info:
                            res.count("index_update_carried_checked")
                            verify(os.path.join(wdir, *k), e.hash_info.name, e.hash_info.value, "index.update/swap-around-md5")
                    # the state must not have been left with rows that vouch the other bytes for the restored files
                    for p in swapped:
                        _m, hi = hash_file(p, fs, "md5", state=state)
                        verify(p, "md5", hi.value, "hash_file/after-swap-around-md5")
                elif q == "index_update" and paths:
                    old = imd5(ibuild(wdir, fs), state=state)
                    changed = []
                    for p in rng.sample(paths, rng.randrange(0, min(5, len(paths)) + 1)):
                        k = rng.choice(["grow", "same-size", "rename-same-size", "rename-other", "shrink", "rename-keep-mtime-size", "grow-keep-mtime"])
                        cur[p] = mutate(rng, p, cur[p], k)
                        mcount[p] += 1
                        res.count("mutations")
                        changed.append(p)
                        hist.append(["mutate", k, os.path.basename(p)])
                    if rng.random() < 0.5:
                        # the old index comes back from disk (its metadata then lacks inode and mtime)
                        from dvc_data.index import DataIndex

                        dbp = os.path.join(d, f"old-{len(hist)}.db")
                        disk = DataIndex.open(dbp)
                        for k_, e_ in old.iteritems():
                            disk[k_] = e_
                        disk.commit()
                        disk.close()
                        old = DataIndex.open(dbp)
                        res.count("index_update_with_reloaded_old_index")
                    new = ibuild(wdir, fs)
                    iupdate(new, old)
                    note_query(paths)
                    for k, e in new.iteritems():
                        if e.hash_info:
                            res.count("index_update_carried_checked")
                            verify(os.path.join(wdir, *k), e.hash_info.name, e.hash_info.value, "index.update")
                elif q == "inject" and paths:
                    p = rng.choice(paths)
                    kind = rng.choice(["legacy-no-version", "version-2", "version-2-other-algorithm", "foreign-algorithm", "garbage"])
                    hist[-1][2] = kind
                    res.count("injected_rows")
                    data = cur[p]
                    if kind == "foreign-algorithm":
                        state.save(p, fs, env.HI("sha256", H("sha256", data)))
                    elif kind == "version-2-other-algorithm":
                        # a row written by a newer format version, under an algorithm other than md5, with a value that is not the file's hash
                        alg_ = rng.choice(["sha256", "blake3", "sha1"])
                        state.save(p, fs, env.HI(alg_, "e" * 64))
                        raw = json.loads(state.hashes.get(p))
                        raw["version"] = 2
                        state.hashes[p] = json.dumps(raw)
                    else:
                        state.save(p, fs, env.HI("md5", "f" * 32 if kind == "version-2" else H("md5-dos2unix", data)))
                        raw = json.loads(state.hashes.get(p))
                        if kind == "legacy-no-version":
                            raw.pop("version", None)
                        elif kind == "version-2":
                            raw["version"] = 2
                        state.hashes[p] = json.dumps(raw) if kind != "garbage" else "{not json"
                    if kind == "legacy-no-version" and rng.random() < 0.6:
                        # a batched scan sees the old-format row first (whatever it does with it must not change what later lookups answer)
                        many_ = list(state.get_many([p], fs, {p: _localfs_info(p)} if rng.random() < 0.5 else {}))
                        res.count("batched_lookups_of_legacy_rows")
                        for _p, _m, h_ in many_:
                            if h_ is not None:
                                verify(p, h_.name, h_.value, "State.get_many/legacy-no-version", hit=True)
                    meta, hi = state.get(p, fs)
                    if kind in ("version-2", "version-2-other-algorithm", "garbage") and hi is not None:
                        res.violation(f"injected-row-returned/{kind}", f"State.get returned a hit for a {kind} row", case=case)
                    if hi is not None:
                        verify(p, hi.name, hi.value, f"State.get/{kind}", hit=True)
                    for name in ("md5", "md5-dos2unix", "sha256", "blake3", "sha1"):
                        if kind == "version-2-other-algorithm" and name in ("md5", "md5-dos2unix"):
                            continue  # (asking under md5 would overwrite the injected row before the other algorithms are asked)
                        _m, h2 = hash_file(p, fs, name, state=state)
                        if h2.name != name:
                            res.violation(f"wrong-algorithm-returned/after-{kind}", f"asked {name}, got {h2.name}", case=case)
                        verify(p, name, h2.value, f"hash_file/after-{kind}")
                    note_query([p])
                elif q == "racing-writer" and paths and not batch:
                    # a write lands between dvc-data's read of a file and its book-keeping; the answer of that very query may be about
                    # either state, but nothing recorded then may vouch for the old bytes under the new stat
                    rfs = RacingFS()
                    victims = [p for p in rng.sample(paths, min(len(paths), 3)) if not os.path.islink(p) and cur[p]]
                    res.count("racing_writer_queries")

                    def make(p):
                        def hook():
                            cur[p] = mutate(rng, p, cur[p], "same-size")
                            mcount[p] = mcount.get(p, 0) + 1
                            res.count("mutations")
                            hist.append(["mutate", "same-size(racing)", os.path.basename(p)])
                        return hook

                    # make sure the files are really read (no row may answer for them)
                    for p in victims:
                        cur[p] = mutate(rng, p, cur[p], "grow")
                        mcount[p] = mcount.get(p, 0) + 1
                        RacingFS.hooks[p] = make(p)
                    how = rng.choice(["_get_hashes", "build", "hash_file"])
                    try:
                        if how == "_get_hashes":
                            infos = {p: _localfs_info(p) for p in paths}
                            _get_hashes(list(paths), rfs, "md5", infos, state=state, jobs=1)
                        elif how == "build":
                            build(odb, wdir, rfs, "md5", dry_run=True)
                        else:
                            for p in victims:
                                hash_file(p, rfs, "md5", state=state)
                    finally:
                        RacingFS.hooks.clear()
                    for p in paths:
                        last_q[p] = mcount.get(p, 0) - (1 if p in victims else 0)
                    # ... and now ask again, quietly
                    for p in victims:
                        _m, hi = hash_file(p, fs, "md5", state=state)
                        verify(p, "md5", hi.value, f"hash_file/after-racing-writer({how})")
                    note_query(victims)
                elif q == "checkout-failed-link":
                    # an object checkout in which one entry cannot be linked (its object is gone from the cache) while a file of the
                    # user's already sits at that path (it appeared after the caller's scan): nothing may be recorded for that file
                    from dvc_data.hashfile.checkout import CheckoutError, checkout as _checkout
                    from dvc_data.hashfile.transfer import transfer as _transfer

                    res.count("failed_link_checkouts")
                    codir = os.path.join(d, f"co-{len(hist)}")
                    a_, b_ = gen.small_content(rng) + b"A", gen.small_content(rng) + b"B"
                    gen.write_tree(codir, {("a",): a_, ("sub", "b"): b_})
                    stg, _m, tobj = build(odb, codir, fs, "md5")
                    _transfer(stg, odb, {tobj.hash_info}, shallow=False)
                    os.unlink(os.path.join(codir, "sub", "b"))
                    _s0, _m0, scan = build(odb, codir, fs, "md5", dry_run=True)  # the caller's (soon outdated) view
                    own = gen.small_content(rng) + b"user-own"
                    with open(os.path.join(codir, "sub", "b"), "wb") as f:
                        f.write(own)
                    olk_ = rng.choice([None, None, "copy", "hardlink", "symlink"])
                    codb = odb if olk_ is None else env.local_odb(os.path.join(d, "cache"), state=state, type=[olk_])
                    if olk_ in (None, "copy") or rng.random() < 0.6:
                        bp_ = odb.oid_to_path(H("md5", b_))
                        os.chmod(bp_, 0o644)
                        os.unlink(bp_)
                    try:
                        _checkout(codir, fs, tobj, codb, force=True, state=state, old=scan)
                    except CheckoutError:
                        res.count("failed_link_checkouts_raised")
                    for rel in (("a",), ("sub", "b")):
                        pp = os.path.join(codir, *rel)
                        if os.path.isfile(pp) and not os.path.islink(pp):
                            _m1, h1 = hash_file(pp, fs, "md5", state=state)
                            if olk_ in ("hardlink", "symlink"):
                                # link types keep an existing destination without saying so
                                res.count("answers_checked")
                                if h1.value != H("md5", file_bytes(pp)):
                                    res.violation("stale-hash/checkout-recorded-a-kept-existing-file/object-checkout",
                                                  f"object checkout with link type {olk_} silently kept a file that had appeared at the path of an added entry and "
                                                  "recorded it in the hash state under the target's hash", case=case, detail={"history": hist[-6:], "link": olk_})
                            else:
                                verify(pp, "md5", h1.value, "hash_file/after-checkout-with-failed-link")
                elif q == "index-checkout-failed-create":
                    # the same through the index-level checkout: compare, then a file of the user's appears at a path that is to be
                    # created and the entry's object is gone from the cache; apply reports the entry - and must record nothing for it
                    from dvc_data.index.checkout import apply as _iapply, compare as _icompare

                    from .. import indexlab

                    res.count("failed_create_index_checkouts")
                    codir = os.path.join(d, f"ico-{len(hist)}")
                    a_, b_ = gen.small_content(rng) + b"iA", gen.small_content(rng) + b"iB"
                    tfiles = {("a",): a_, ("sub", "b"): b_}
                    indexlab.save_tree_to_cache(ctx, odb, tfiles, d, name=f"ico-src-{len(hist)}")
                    gen.write_tree(codir, {("a",): a_})
                    tgt = indexlab.explicit_index(tfiles, cache_odb=odb)
                    dff = _icompare(indexlab.workspace_index(codir), tgt, delete=True)
                    own = gen.small_content(rng) + b"user-own"
                    os.makedirs(os.path.join(codir, "sub"), exist_ok=True)
                    with open(os.path.join(codir, "sub", "b"), "wb") as f:
                        f.write(own)
                    lk_ = rng.choice([None, ["copy"], ["hardlink"], ["hardlink"], ["symlink"]])
                    kept_obj = lk_ == ["hardlink"] and rng.random() < 0.5
                    if not kept_obj:
                        bp_ = odb.oid_to_path(H("md5", b_))
                        os.chmod(bp_, 0o644)
                        os.unlink(bp_)
                    errs_ = []
                    um_ = rng.random() < 0.5
                    try:
                        _iapply(dff, codir, fs, storage="cache", state=state, update_meta=um_, onerror=lambda s_, d_, e_: errs_.append(d_),
                                links=lk_)
                    except Exception:  # noqa: BLE001  (loud is fine here)
                        errs_.append("raised")
                    if um_:
                        # the target index has been refreshed from the workspace (update_meta): an entry that was not created must
                        # not have been given the metadata of the user's file, or the metadata-based update carries its hash over
                        res.count("failed_create_index_checkouts_with_meta_update")
                        newi_ = ibuild(codir, fs)
                        iupdate(newi_, tgt)
                        for k_, e_ in newi_.iteritems():
                            pp_ = os.path.join(codir, *k_)
                            if e_.hash_info and e_.hash_info.value and os.path.isfile(pp_):
                                res.count("index_update_carried_checked")
                                verify(pp_, e_.hash_info.name, e_.hash_info.value, "index.update/after-index-checkout-with-failed-create")
                    if errs_:
                        res.count("failed_create_index_checkouts_reported")
                    for rel in (("a",), ("sub", "b")):
                        pp = os.path.join(codir, *rel)
                        if os.path.isfile(pp) and not os.path.islink(pp):
                            _m1, h1 = hash_file(pp, fs, "md5", state=state)
                            if lk_ == ["symlink"] or kept_obj:
                                # the link primitive keeps an existing destination without saying so (nothing reaches onerror)
                                res.count("answers_checked")
                                if h1.value != H("md5", file_bytes(pp)):
                                    res.violation("stale-hash/checkout-recorded-a-kept-existing-file/index-checkout",
                                                  f"index checkout with link type {lk_[0]} silently kept a file that had appeared at a path to be created and recorded it "
                                                  "in the hash state under the target's hash", case=case, detail={"history": hist[-6:]})
                            else:
                                verify(pp, "md5", h1.value, "hash_file/after-index-checkout-with-failed-create")
                elif q == "legacy-store-checkout":
                    # a directory with CRLF text is stored in a store of the legacy (text-normalising) md5, loaded from it as its
                    # callers do (no hash name given) and checked out with the hash state: the rows checkout records are legacy
                    # rows, and a later md5 query of those files must not be answered from them
                    from dvc_data.hashfile import load as _load
                    from dvc_data.hashfile.checkout import checkout as _checkout
                    from dvc_data.hashfile.transfer import transfer as _transfer

                    res.count("legacy_store_checkouts")
                    lodb = env.local_odb(os.path.join(d, "legacy-cache"), state=state, hash_name="md5-dos2unix")
                    lsrc = os.path.join(d, f"legacy-src-{len(hist)}")
                    lfiles = {("text.txt",): b"line one\r\nline two\r\n" + gen.small_content(rng).replace(b"\0", b"x"), ("sub", "more.txt"): b"a\r\nb\r\n" * rng.randrange(1, 50),
                              ("bin",): b"\0\r\n" + gen.small_content(rng)}
                    gen.write_tree(lsrc, lfiles)
                    stg, _m, lobj = build(lodb, lsrc, fs, "md5-dos2unix")
                    _transfer(stg, lodb, {lobj.hash_info}, shallow=False)
                    ltree = _load(lodb, lobj.hash_info)
                    lout = os.path.join(d, f"legacy-out-{len(hist)}")
                    _checkout(lout, fs, ltree, lodb, force=True, state=state)
                    for k_ in lfiles:
                        pp_ = os.path.join(lout, *k_)
                        _m1, h1 = hash_file(pp_, fs, "md5", state=state)
                        verify(pp_, "md5", h1.value, "hash_file/md5-after-checkout-from-legacy-store")
                elif q == "re-add-into-verifying-store":
                    # a store configured to verify holds a protected object whose bytes were since rewritten in place (through a hard
                    # link in a workspace, say); the same oid is added again - it exists, so nothing is written - and no row may
                    # vouch for the object file's current bytes
                    res.count("re_adds_into_a_verifying_store")
                    vodb = env.local_odb(os.path.join(d, "verifying-cache"), state=state, verify=True)
                    vdata = gen.small_content(rng) + b"-v%d" % len(hist)
                    vsrc = os.path.join(d, f"vsrc-{len(hist)}")
                    with open(vsrc, "wb") as f:
                        f.write(vdata)
                    void = H("md5", vdata)
                    vodb.add(vsrc, fs, void)
                    vp_ = vodb.oid_to_path(void)
                    with open(vp_, "r+b") as f:
                        f.write(b"X" + vdata[1:] if vdata[:1] != b"X" else b"Y" + vdata[1:])
                        if rng.random() < 0.5:
                            f.write(b"-grown")
                    try:
                        vodb.add(vsrc, fs, void)
                    except Exception:  # noqa: BLE001  (refusing loudly is fine)
                        res.count("re_adds_into_a_verifying_store_refused")
                    if os.path.isfile(vp_):
                        _m1, h1 = hash_file(vp_, fs, "md5", state=state)
                        verify(vp_, "md5", h1.value, "hash_file/object-after-re-add-into-verifying-store")
                elif q == "checkout-with-agreeing-prompt":
                    # a non-forced object checkout over a workspace file the user has edited (its bytes are not in the cache), with a
                    # prompt that agrees to the replacement, for every link type: afterwards the state answers for the bytes there
                    from dvc_data.hashfile.checkout import CheckoutError, PromptError, checkout as _checkout
                    from dvc_data.hashfile.transfer import transfer as _transfer

                    res.count("checkouts_with_agreeing_prompt")
                    pdir = os.path.join(d, f"pco-{len(hist)}")
                    a_, b_ = gen.small_content(rng) + b"pA", gen.small_content(rng) + b"pB"
                    gen.write_tree(pdir, {("a",): a_, ("sub", "b"): b_})
                    plk_ = rng.choice(["copy", "hardlink", "symlink", "hardlink", "symlink"])
                    podb = env.local_odb(os.path.join(d, "cache"), state=state, type=[plk_])
                    stg, _m, tobj = build(podb, pdir, fs, "md5")
                    _transfer(stg, podb, {tobj.hash_info}, shallow=False)
                    victim_ = rng.choice([("a",), ("sub", "b")])
                    with open(os.path.join(pdir, *victim_), "wb") as f:
                        f.write(gen.small_content(rng) + b"user's edit")
                    asked_ = []
                    try:
                        _checkout(pdir, fs, tobj, podb, force=False, state=state, prompt=lambda m_: asked_.append(m_) or True)
                    except (CheckoutError, PromptError):
                        res.count("checkouts_with_agreeing_prompt_refused")
                    if asked_:
                        res.count("checkouts_with_agreeing_prompt_asked")
                    for rel in (("a",), ("sub", "b")):
                        pp = os.path.join(pdir, *rel)
                        if os.path.isfile(pp):
                            _m1, h1 = hash_file(pp, fs, "md5", state=state)
                            verify(pp, "md5", h1.value, f"hash_file/after-checkout-with-agreeing-prompt({plk_})")
                elif q == "index-md5-twice" and paths:
                    # an index that already carries hashes is handed to md5() again after files were rewritten: what comes out answers
                    # for the bytes that are there now
                    res.count("index_md5_on_an_already_hashed_index")
                    once_ = imd5(ibuild(wdir, fs), state=state)
                    for p in rng.sample(paths, rng.randrange(1, min(4, len(paths)) + 1)):
                        if os.path.islink(p):
                            continue
                        k = rng.choice(["grow", "same-size", "rename-same-size", "rename-other"])
                        cur[p] = mutate(rng, p, cur[p], k)
                        mcount[p] += 1
                        res.count("mutations")
                        hist.append(["mutate", k, os.path.basename(p)])
                    twice_ = imd5(once_, state=state if rng.random() < 0.7 else None)
                    note_query(paths)
                    for k_, e_ in twice_.iteritems():
                        pp_ = os.path.join(wdir, *k_)
                        if e_.hash_info and e_.hash_info.value and os.path.isfile(pp_):
                            res.count("index_md5_checked")
                            verify(pp_, e_.hash_info.name, e_.hash_info.value, "index.md5/of-an-already-hashed-index")
                elif q == "incremental-checkout":
                    # checkout told what the previous checkout produced (old=): a file that is the same in both trees has been edited
                    # since, another one really differs; nothing may be recorded for the edited file under the trees' hash
                    from dvc_data.hashfile.checkout import CheckoutError, checkout as _checkout
                    from dvc_data.hashfile.transfer import transfer as _transfer

                    res.count("incremental_checkouts")
                    idir = os.path.join(d, f"inc-{len(hist)}")
                    same_, v1_, v2_ = gen.small_content(rng) + b"same", gen.small_content(rng) + b"v1", gen.small_content(rng) + b"v2"
                    trees_ = []
                    for ver_ in (v1_, v2_):
                        sd_ = os.path.join(d, f"inc-src-{len(hist)}-{len(trees_)}")
                        gen.write_tree(sd_, {("same",): same_, ("sub", "changes"): ver_})
                        stg, _m, tobj_ = build(odb, sd_, fs, "md5")
                        _transfer(stg, odb, {tobj_.hash_info}, shallow=False)
                        trees_.append(tobj_)
                    _checkout(idir, fs, trees_[0], odb, force=True, state=state)
                    with open(os.path.join(idir, "same"), "wb") as f:
                        f.write(gen.small_content(rng) + b"edited since")
                    try:
                        _checkout(idir, fs, trees_[1], odb, force=True, state=state, old=trees_[0])
                    except CheckoutError:
                        pass
                    for rel in (("same",), ("sub", "changes")):
                        pp = os.path.join(idir, *rel)
                        if os.path.isfile(pp):
                            _m1, h1 = hash_file(pp, fs, "md5", state=state)
                            verify(pp, "md5", h1.value, "hash_file/after-incremental-checkout")
                elif q == "add-failed-over-existing-path":
                    # adding an object fails (its source is gone; the caller's error hook is told) while other bytes already sit at the
                    # object's path in a store that does not check what it holds: no row may vouch for those bytes
                    res.count("failed_adds_over_an_existing_path")
                    bodb = env.base_odb(os.path.join(d, f"plain-store-{len(hist)}"), state=state)
                    want_ = gen.small_content(rng) + b"-wanted"
                    oid_ = H("md5", want_)
                    op_ = bodb.oid_to_path(oid_)
                    os.makedirs(os.path.dirname(op_), exist_ok=True)
                    with open(op_, "wb") as f:
                        f.write(gen.small_content(rng) + b"-left-over")
                    srcs_, oids_ = [os.path.join(d, "no-such-source")], [oid_]
                    if rng.random() < 0.5:
                        good_ = gen.small_content(rng) + b"-good"
                        gp_ = os.path.join(d, f"good-src-{len(hist)}")
                        with open(gp_, "wb") as f:
                            f.write(good_)
                        srcs_.insert(rng.randrange(2), gp_)
                        oids_.insert(0 if srcs_[0] == gp_ else 1, H("md5", good_))
                    told_ = []
                    bodb.add(srcs_, fs, oids_, check_exists=False, on_error=lambda o_, e_: told_.append(o_))
                    if told_ != [oid_]:
                        res.violation("failed-add-not-reported", f"add() with a missing source told the error hook {told_}", case=case, detail={"history": hist[-6:]})
                    for o_ in oids_:
                        pp_ = bodb.oid_to_path(o_)
                        if os.path.isfile(pp_):
                            _m1, h1 = hash_file(pp_, fs, "md5", state=state)
                            verify(pp_, "md5", h1.value, "hash_file/after-failed-add-over-existing-path")
                elif q == "alias-through-dir-symlink" and paths and not batch:
                    # `w/lnk/../name` is, for the OS, `<target of lnk>/../name` - not `w/name`; rows saved or looked up through such a
                    # spelling must be about the file the OS resolves it to
                    res.count("alias_path_queries")
                    alt_sub = os.path.join(d, "alt", "sub")
                    os.makedirs(alt_sub, exist_ok=True)
                    lnk = os.path.join(wdir, "lnk-dir")
                    if not os.path.lexists(lnk):
                        os.symlink(alt_sub, lnk)
                    p = rng.choice([pp for pp in paths if not os.path.islink(pp)] or paths)
                    nm = os.path.basename(p)
                    elsewhere = os.path.join(d, "alt", nm)
                    other = cur[p] + b"-elsewhere"
                    with open(elsewhere, "wb") as f:
                        f.write(other)
                    alias = os.path.join(wdir, "lnk-dir", "..", nm)
                    how_ = rng.choice(["save", "save_many", "hash_file"])
                    if how_ == "save":
                        state.save(alias, fs, env.HI("md5", H("md5", other)))
                    elif how_ == "save_many":
                        state.save_many([(alias, env.HI("md5", H("md5", other)), None)], fs)
                    else:
                        _m, ha = hash_file(alias, fs, "md5", state=state)
                        if ha.value != H("md5", other):
                            res.violation("stale-hash/alias-through-dir-symlink", "hash_file through the alias is not the hash of the file the OS resolves it to", case=case)
                    _m, h1 = hash_file(p, fs, "md5", state=state)
                    verify(p, "md5", h1.value, f"hash_file/after-{how_}-through-alias-of-another-file")
                    m2, h2 = state.get(alias, fs)
                    if h2 is not None and h2.value != H("md5", other):
                        res.violation("stale-hash/alias-through-dir-symlink", "State.get through the alias answers for another file", case=case)
                    os.unlink(lnk)
                    note_query([p])
                elif q == "memfs" and paths:
                    p = rng.choice(paths)
                    _m, _h = hash_file(p, fs, "md5", state=state)  # make sure a local row exists for this path string
                    other = cur[p] + b"-in-memory"
                    memfs.pipe_file(p, other)
                    res.count("memfs_queries")
                    m1, h1 = state.get(p, memfs)
                    if h1 is not None:
                        res.violation("non-local-filesystem-hit", "State.get answered for a memfs path", case=case)
                    _m2, h2 = hash_file(p, memfs, "md5", state=state)
                    if h2.value != H("md5", other):
                        res.violation("non-local-filesystem-hit/hash_file", "hash_file on memfs returned the local file's cached hash", case=case)
                    many = list(state.get_many([p], memfs, {}))
                    if many and many[0][2] is not None:
                        res.violation("non-local-filesystem-hit/get_many", "get_many answered for a memfs path", case=case)
                    # the batched entry points with caller-supplied listing infos (what staging a directory does), twice, with a
                    # same-size overwrite in between
                    for rnd_ in (1, 2):
                        minfos = {p: memfs.info(p)}
                        outm = _get_hashes([p], memfs, "md5", minfos, state=state, jobs=1)
                        res.count("memfs_batched_queries")
                        if outm[p][1].value != H("md5", other):
                            res.violation("non-local-filesystem-hit/_get_hashes", f"round {rnd_}: the batched lookup answered a memfs path with a hash that is not the hash of its bytes",
                                          case=case)
                        many2 = list(state.get_many([p], memfs, minfos))
                        if many2 and many2[0][2] is not None:
                            res.violation("non-local-filesystem-hit/get_many", "get_many (with listing infos) answered for a memfs path", case=case)
                        other = bytes((b + 1) % 256 for b in other)
                        memfs.pipe_file(p, other)
                    memfs.rm_file(p)
                    note_query([p])
            res.sample({"files": nfiles, "history": hist[:14], "ext4": on_disk, "batch": batch})
            state.close()
            env.reset_staging()
            ctx.drop(d)

        ctx.guard(case, one)
