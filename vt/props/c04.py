"""C04 - transfer keeps the destination closed: a directory object implies its files."""

import os

from .. import env
from ..transfer_lab import Scenario, UploadFaults, closure_of, dest_objects, failure_subsets, ok_bytes, wipe

RULE = (
    "scenario = 1-4 generated trees sharing files (and repeating a file under several paths) in a local cache, destination "
    "remote-like (base HashFileDB over a non-local filesystem) or local, closed request (dirs listed with their files) or "
    "expanded (shallow=False), with/without an ObjectDBIndex, jobs 1/4, verify on/off; round = one subset of objects whose upload fails "
    "(every subset when <= 6 objects, sampled otherwise), followed by a fault-free retry; additionally: one directory of 257-700 distinct files per shard (failures at the low/middle/high end of the oid order), a round in which the first 1-3 reads of the directory objects' listings fail while a listed file fails to upload; the closure monitor runs at every "
    "observable destination state (after every upload / before every fs mutation) and at the end; crash rounds kill a child "
    "process at enumerated mutating events.  non-trivial = at least one upload failed and at least one succeeded; "
    "distinct = (scenario content, request form, failing subset)"
)
ASSUMPTIONS = [
    "fault = OSError raised by the destination's upload primitive (remote put_file; local: the audited open/link/rename of the object's final name)",
    "crash = os._exit at a Python-visible filesystem event; page cache survives (no power-loss model)",
    "closure is evaluated by listing directory objects first and then looking up their children (sound while objects are only added)",
]
MONITORS = "closure(dest) evaluated at every intermediate destination state via FaultyFS.after_put / audit hook, plus end-state and retry checks"
REQUIRED_COUNTERS = [
    "scenarios_with_legacy_md5_stores", "scenarios_destination_of_other_md5_flavour", "missing_on_both_sides_rounds_with_repairing_status_hook", "scenarios_with_verify", "missing_on_both_sides_rounds", "wide_directory_scenarios", "dir_read_fault_rounds", "dir_listing_reads_failed", "source_index_rounds", "index_history_rounds", "source_vanish_rounds", "rounds", "states_observed", "rounds_with_failures", "shared_file_failure_rounds", "retries", "rounds_with_index",
    "dirs_withheld", "exhaustive_scenarios", "crash_children",
]
EXHAUSTIVE = {"quick": False, "thorough": False}


def _transfer(sc, ids, shallow, jobs, index, **kw):
    from dvc_data.hashfile.transfer import transfer

    return transfer(sc.src, sc.dest, ids, jobs=jobs, shallow=shallow, dest_index=index, cache_odb=sc.src, **kw)


def run_shard(ctx):
    from dvc_data.hashfile.db.index import ObjectDBIndex

    res = ctx.res
    max_rounds = 40 if ctx.tier == "quick" else 130

    wide_cases = {ctx.shard + 16 * j for j in range(1 if ctx.tier == "quick" else 4)}

    for case, rng in ctx.cases(ctx.plan["n"]):

        def one(case=case, rng=rng):
            d = ctx.fresh("t")
            wide = rng.choice([257, 300, 420] if ctx.tier == "quick" else [257, 300, 520, 700]) if case in wide_cases else 0
            legacy = (not wide) and rng.random() < 0.1
            sc = Scenario(ctx, rng, d, ntrees=rng.choice([1, 2]) if wide else rng.choice([1, 2, 2, 3, 4]), wide=wide, legacy=legacy)
            if legacy:
                # both stores (and the ids of the request) use the text-normalising md5 of old repositories
                res.count("scenarios_with_legacy_md5_stores")
            if wide:
                res.count("wide_directory_scenarios")
            expanded = rng.random() < 0.4
            use_index = rng.random() < 0.5
            jobs = rng.choice([1, 4])
            verify_opt = {"verify": True} if rng.random() < 0.3 else {}
            if verify_opt:
                res.count("scenarios_with_verify")
            if not wide and not legacy and rng.random() < 0.12:
                # the destination is a store of the other md5 flavour (its configured hash name differs from the source's)
                sc.dest_cfg = {"hash_name": "md5-dos2unix"}
                sc.dest = sc._mk_dest()
                res.count("scenarios_destination_of_other_md5_flavour")
            ids, shallow, denoted = sc.closed_request(expanded)
            dirs = {t["oid"]: t for t in sc.trees}
            file_oids = sorted(sc.file_oids())
            shared = {o for o in file_oids if sum(o in t["listing"].values() for t in sc.trees) > 1}
            universe = file_oids + (sorted(dirs) if rng.random() < 0.5 and len(file_oids) + len(dirs) <= 6 else [])
            subsets, exhaustive = failure_subsets(rng, universe, must_include=sorted(shared)[:2])
            if wide:
                # few rounds (each one is long): single files at the low / middle / high end of the oid order, and a random handful
                subsets = [frozenset([file_oids[0]]), frozenset([file_oids[len(file_oids) // 2]]), frozenset([file_oids[-1]]),
                           frozenset(rng.sample(file_oids, 5))][: 4 if ctx.tier == "thorough" else 3]
                rng.shuffle(subsets)
            if exhaustive:
                res.count("exhaustive_scenarios")
            if len(subsets) > max_rounds:
                keep = [s for s in subsets if s & shared][: max_rounds // 2]
                rest = [s for s in subsets if s not in keep]
                rng.shuffle(rest)
                subsets = keep + rest[: max_rounds - len(keep)]
                res.count("scenarios_truncated")
            scen_sig = (sorted((t["oid"], sorted(t["listing"].items())) for t in sc.trees), sorted(sc.single_files), expanded, sc.dest_kind)
            res.sample({
                "trees": [{"oid": t["oid"], "listing": t["listing"]} for t in sc.trees][:3], "dest": sc.dest_kind,
                "expanded": expanded, "index": use_index, "jobs": jobs, "objects": len(universe), "subsets": len(subsets),
                "shared_files": len(shared), "exhaustive_subsets": exhaustive,
            })

            for ri, S in enumerate(subsets):
                if ctx.out_of_time():
                    res.count("stopped_by_time_budget")
                    break
                wipe(sc.dest_root)
                sc.dest = sc._mk_dest()
                index = None
                if use_index:
                    index = ObjectDBIndex(os.path.join(d, f"idx{ri}"), "dest")
                    res.count("rounds_with_index")
                res.evaluated()
                res.count("rounds")
                viol = []

                nstate = [0]

                def on_state():
                    nstate[0] += 1
                    if wide and nstate[0] % 16:
                        return  # wide directories: every 16th intermediate state (and always the end state, below)
                    probs, _n = closure_of(sc)
                    for doid, missing in probs:
                        kind = "shared-file" if set(missing) & shared else "own-file"
                        viol.append((kind, doid, missing))

                with UploadFaults(sc, S, on_state) as uf:
                    r = _transfer(sc, ids, shallow, jobs, index, **verify_opt)
                res.count("states_observed", uf.states if not wide else uf.states // 16 + 1)
                if wide:
                    nstate[0] = 15
                    on_state()
                after = dest_objects(sc)
                if S:
                    res.count("rounds_with_failures")
                    if S & shared:
                        res.count("shared_file_failure_rounds")
                    if set(after):
                        res.nontrivial(scen_sig, sorted(S))
                seen = set()
                for kind, doid, missing in viol:
                    if (kind, doid) in seen:
                        continue
                    seen.add((kind, doid))
                    res.violation(
                        f"dir-present-without-its-files/{kind}-failed",
                        f"directory object {doid} in destination while listed file(s) {missing[:2]} absent",
                        case=case,
                        detail={"failing": sorted(S), "dest": sc.dest_kind, "expanded": expanded, "index": use_index, "jobs": jobs, "verify": bool(verify_opt),
                                "trees": [{"oid": t["oid"], "listing": t["listing"]} for t in sc.trees]},
                    )
                failed_vals = {h.value for h in r.failed}
                for doid, t in dirs.items():
                    undelivered = sorted(o for o in set(t["listing"].values()) if o not in after)
                    if undelivered:
                        res.count("dirs_withheld")
                        if doid not in failed_vals:
                            res.violation(
                                "dir-with-undelivered-file-not-reported-failed",
                                f"directory {doid} has undelivered file(s) {undelivered[:2]} but is not in result.failed",
                                case=case, detail={"failing": sorted(S), "failed": sorted(failed_vals), "dest": sc.dest_kind},
                            )
                for o in S:
                    if o in after:
                        res.violation("failed-upload-object-present", f"{o}: upload was made to fail yet the object is in the destination",
                                      case=case, detail={"failing": sorted(S), "dest": sc.dest_kind})
                # fault-free retry with the same request (and the same index)
                res.count("retries")
                r2 = _transfer(sc, ids, shallow, jobs, index)
                after2 = dest_objects(sc)
                missing = sorted(o for o in denoted if o not in after2)
                wrong = sorted(o for o in denoted if o in after2 and not ok_bytes(sc, o, after2[o]))
                if missing or wrong or r2.failed:
                    res.violation(
                        "retry-incomplete" + ("/with-index" if use_index else ""),
                        f"fault-free retry left destination incomplete: missing={missing[:3]} wrong={wrong[:3]} failed={len(r2.failed)}",
                        case=case, detail={"failing": sorted(S), "dest": sc.dest_kind, "expanded": expanded, "index": use_index},
                    )
                probs, _n = closure_of(sc)
                if probs:
                    res.violation("dir-present-without-its-files/after-retry", "closure broken after retry", case=case, detail={"probs": probs[:3]})
                if index is not None:
                    index.close()
            # ---- the directory object cannot be read when the transfer wants its listing (transient: first reads fail), and a listed file fails to upload
            if not ctx.out_of_time() and not wide:
                from dvc_objects.fs.local import LocalFileSystem

                from ..monitors import MethodPatch

                wipe(sc.dest_root)
                sc.dest = sc._mk_dest()
                tvict = rng.choice(sc.trees)
                S5 = frozenset(rng.sample(sorted(set(tvict["listing"].values())), 1))
                dir_paths = {os.path.abspath(sc.src_path(t["oid"])) for t in sc.trees}
                nfail = rng.choice([1, 2, 2, 3])
                seen_reads = {}

                def flaky_open(orig):
                    def wrapper(self, path, mode="r", **kw):
                        ap = os.path.abspath(path) if isinstance(path, str) else path
                        if "b" not in mode and "r" in mode and ap in dir_paths:
                            seen_reads[ap] = seen_reads.get(ap, 0) + 1
                            if seen_reads[ap] <= nfail:
                                import errno as _e

                                raise OSError(_e.EIO, "injected read fault (verif)", path)
                        return orig(self, path, mode, **kw)

                    return wrapper

                viol5 = []

                def on_state5():
                    probs, _n = closure_of(sc)
                    viol5.extend(probs)

                res.evaluated()
                res.count("dir_read_fault_rounds")
                raised = None
                r5 = None
                with MethodPatch(LocalFileSystem, "open", flaky_open), UploadFaults(sc, S5, on_state5) as uf5:
                    try:
                        r5 = _transfer(sc, ids, shallow, jobs, None)
                    except OSError as e:
                        raised = e
                        res.count("dir_read_fault_rounds_raised")
                res.count("states_observed", uf5.states)
                res.count("dir_listing_reads_failed", sum(min(v, nfail) for v in seen_reads.values()))
                res.nontrivial(scen_sig, "dir-read-fault", sorted(S5), nfail)
                endp5, _n = closure_of(sc)
                after5 = dest_objects(sc)
                if viol5 or endp5:
                    bad = (viol5 or endp5)[0]
                    res.violation("dir-present-without-its-files/dir-listing-unreadable",
                                  f"the listing of a directory could not be read (transient) and a listed file failed: {bad[0]} uploaded without {bad[1][:2]}",
                                  case=case, detail={"failing": sorted(S5), "read_failures": nfail, "dest": sc.dest_kind, "expanded": expanded})
                elif r5 is not None:
                    f5 = {h.value for h in r5.failed}
                    for doid, t in dirs.items():
                        if any(v not in after5 for v in t["listing"].values()) and doid not in f5:
                            res.violation("dir-with-undelivered-file-not-reported-failed/dir-listing-unreadable",
                                          f"{doid} incomplete but not in result.failed", case=case, detail={"failing": sorted(S5)})

            # ---- a file object missing on both sides while everything else its directories list is already delivered: nothing is left to
            # upload for those directories, and still they must be withheld
            if not ctx.out_of_time() and not wide and file_oids:
                import shutil as _sh

                wipe(sc.dest_root)
                sc.dest = sc._mk_dest()
                gone_f = rng.choice(file_oids)
                holders = [t for t in sc.trees if gone_f in t["listing"].values()]
                if holders:
                    res.evaluated()
                    res.count("missing_on_both_sides_rounds")
                    keepf = sc.src_path(gone_f) + ".verif-kept"
                    os.replace(sc.src_path(gone_f), keepf)
                    pre_deliver = rng.random() < 0.7
                    if pre_deliver:
                        for t in holders:
                            for o in set(t["listing"].values()) - {gone_f}:
                                dp = sc.dest_path(o)
                                os.makedirs(os.path.dirname(dp), exist_ok=True)
                                _sh.copyfile(sc.src_path(o), dp)
                                if sc.dest_kind == "local":
                                    os.chmod(dp, 0o444)
                    viol6 = []

                    def on_state6():
                        probs, _n = closure_of(sc)
                        viol6.extend(probs)

                    hook6 = {}
                    if rng.random() < 0.4:
                        # the caller's status hook reacts to what is reported missing by repairing the source (it fetches the object
                        # from a backup): whether or not the transfer takes notice, no directory may arrive without that file
                        def repair_source(_status, keepf=keepf, gone_f=gone_f):
                            if os.path.exists(keepf):
                                os.replace(keepf, sc.src_path(gone_f))

                        hook6 = {"validate_status": repair_source}
                        res.count("missing_on_both_sides_rounds_with_repairing_status_hook")
                    with UploadFaults(sc, frozenset(), on_state6) as uf6:
                        r6 = _transfer(sc, ids, shallow, jobs, None, **verify_opt, **hook6)
                    res.count("states_observed", uf6.states)
                    endp6, _n = closure_of(sc)
                    res.nontrivial(scen_sig, "missing-both", gone_f, pre_deliver)
                    if viol6 or endp6:
                        bad = (viol6 or endp6)[0]
                        res.violation("dir-present-without-its-files/file-missing-on-both-sides",
                                      f"{bad[0]} uploaded although {bad[1][:2]} exists neither in the source nor in the destination"
                                      + (" (all its other files had been delivered before)" if pre_deliver else ""), case=case,
                                      detail={"missing": gone_f, "dest": sc.dest_kind, "expanded": expanded, "pre_delivered": pre_deliver})
                    if os.path.exists(keepf):
                        os.replace(keepf, sc.src_path(gone_f))

            # ---- a history sharing one destination index: push A, the remote loses A (and A's files), push B which shares a file with A
            pairs = [(a, b) for a in sc.trees for b in sc.trees if a is not b and set(a["listing"].values()) & set(b["listing"].values())]
            if pairs and not ctx.out_of_time() and not wide:
                A, B = rng.choice(pairs)
                wipe(sc.dest_root)
                sc.dest = sc._mk_dest()
                index = ObjectDBIndex(os.path.join(d, "idx-history"), "dest")
                res.evaluated()
                res.count("index_history_rounds")

                def req(t):
                    return {t["hi"]} | {env.HI(sc.algo, v) for v in t["listing"].values()}

                _transfer(sc, req(A), True, jobs, index)
                for o in [A["oid"], *set(A["listing"].values())]:
                    pth = sc.dest_path(o)
                    if os.path.exists(pth):
                        os.chmod(pth, 0o644)
                        os.unlink(pth)
                viol2 = []

                def on_state2():
                    probs, _n = closure_of(sc)
                    viol2.extend(probs)

                with UploadFaults(sc, frozenset(), on_state2) as uf2:
                    rB = _transfer(sc, req(B), True, jobs, index)
                res.count("states_observed", uf2.states)
                afterB = dest_objects(sc)
                res.nontrivial(scen_sig, "index-history", A["oid"], B["oid"])
                if viol2:
                    res.violation("dir-present-without-its-files/stale-index-trusted",
                                  f"after the remote lost {A['oid']} and its files, pushing {B['oid']} with the same index left it without {viol2[0][1][:2]}",
                                  case=case, detail={"A": A["listing"], "B": B["listing"], "dest": sc.dest_kind})
                elif B["oid"] in afterB and any(v not in afterB for v in B["listing"].values()):
                    res.violation("dir-present-without-its-files/stale-index-trusted", "directory present, listed file absent (end state)", case=case)
                elif any(o not in afterB for o in [B["oid"], *B["listing"].values()]) and not rB.failed:
                    res.violation("retry-incomplete/stale-index-trusted", "fault-free push through a stale index left the directory incomplete and reported no failure",
                                  case=case, detail={"A": A["listing"], "B": B["listing"]})
                index.close()

            # ---- pulling the same directories twice through one *source* index (expanded request), the destination wiped in between
            if not ctx.out_of_time() and not wide:
                wipe(sc.dest_root)
                sc.dest = sc._mk_dest()
                sidx = ObjectDBIndex(os.path.join(d, "idx-src"), "src")
                dir_ids = {t["hi"] for t in sc.trees}
                res.evaluated()
                res.count("source_index_rounds")
                res.nontrivial(scen_sig, "source-index-twice")
                for rnd in (1, 2):
                    from dvc_data.hashfile.transfer import transfer as _tr

                    viol4 = []

                    def on_state4():
                        probs, _n = closure_of(sc)
                        viol4.extend(probs)

                    with UploadFaults(sc, frozenset(), on_state4) as uf4:
                        _tr(sc.src, sc.dest, dir_ids, jobs=jobs, shallow=False, src_index=sidx, cache_odb=sc.src)
                    res.count("states_observed", uf4.states)
                    endp, _n = closure_of(sc)
                    if viol4 or endp:
                        bad = (viol4 or endp)[0]
                        res.violation("dir-present-without-its-files/expanded-request-through-source-index",
                                      f"round {rnd}: directory {bad[0]} delivered without {bad[1][:2]} (expanded request, src_index knows the directory)",
                                      case=case, detail={"round": rnd, "dest": sc.dest_kind})
                        break
                    if rnd == 1:
                        wipe(sc.dest_root)
                        sc.dest = sc._mk_dest()
                sidx.close()

            # ---- source objects that vanish between the status query and their upload (last: it damages the source)
            if not ctx.out_of_time() and not wide:
                wipe(sc.dest_root)
                sc.dest = sc._mk_dest()
                vanish = {o for o in file_oids if rng.random() < 0.3} or set(file_oids[:1])
                res.evaluated()
                res.count("source_vanish_rounds")

                def vanish_now(_status):
                    for o in vanish:
                        pth = sc.src_path(o)
                        if os.path.exists(pth):
                            os.chmod(pth, 0o644)
                            os.unlink(pth)

                viol3 = []

                def on_state3():
                    probs, _n = closure_of(sc)
                    viol3.extend(probs)

                with UploadFaults(sc, frozenset(), on_state3) as uf3:
                    r3 = _transfer(sc, ids, shallow, jobs, None, validate_status=vanish_now)
                res.count("states_observed", uf3.states)
                after3 = dest_objects(sc)
                res.nontrivial(scen_sig, "source-vanish", sorted(vanish))
                failed3 = {h.value for h in r3.failed}
                if viol3:
                    res.violation("dir-present-without-its-files/source-object-vanished",
                                  f"a source object vanished before its upload; directory {viol3[0][0]} was uploaded without {viol3[0][1][:2]}",
                                  case=case, detail={"vanished": sorted(vanish), "dest": sc.dest_kind})
                for doid, t in dirs.items():
                    if set(t["listing"].values()) & vanish and not all(v in after3 for v in t["listing"].values()):
                        if doid in after3:
                            res.violation("dir-present-without-its-files/source-object-vanished", f"{doid} present at the end", case=case)
                        elif doid not in failed3:
                            res.violation("dir-with-undelivered-file-not-reported-failed/source-object-vanished",
                                          f"{doid} could not be completed (source object vanished) but is not in result.failed", case=case,
                                          detail={"vanished": sorted(vanish)})
            env.reset_staging()
            ctx.drop(d)

        ctx.guard(case, one)

    # ---- crash points: a child process runs the transfer and dies at the n-th mutating event
    from ..crashlab import run_c04_crash_rounds

    run_c04_crash_rounds(ctx)
