"""C10 - object checkout converges, is idempotent, honours link types, spares the cache."""

import os

from .. import colab, env, gen
from ..monitors import Recorder
from ..oracle import H, store_snapshot, walk_files

RULE = (
    "case = (target tree with duplicates and empty files, or a single file; prior workspace = checkout of the target or of "
    "another tree with the *existing* link type, then kind-preserving user edits (add / modify / delete nested files, extra "
    "directories, hard links to files outside the cache, a partial file left under the copy primitive's temporary name by an interrupted checkout); configured link type in {copy, hardlink, symlink, reflink->copy}; store class local/base; state on/off; old= "
    "given or recomputed).  Sequence: forced checkout -> plain second checkout -> relinking checkout -> second relinking checkout. "
    "non-trivial = prior differs from target or existing link type differs from the configured one; distinct = (prior, target, "
    "existing type, configured type, configuration)"
)
ASSUMPTIONS = [
    "priors agree in kind with the target (the property's condition); kind conflicts are C05/C09 material",
    "reflink is unavailable on this sandbox: configured ['reflink','copy'] is checked as copy and labelled so",
    "run as root: hard-linked files share mode bits with the cache object; only cache *bytes* are asserted, as the statement says",
    "with link type hardlink empty files are plain files (dvc-objects creates them instead of linking)",
]
MONITORS = ("independent walk + lstat/readlink/inode of the workspace; audit-hook recorder proving zero filesystem mutations in "
            "workspace and cache during the second checkout; byte snapshot of the cache; link record checked through get_unused_links")
REQUIRED_COUNTERS = ["checkouts_of_a_part_over_the_whole", "checkouts_of_a_tree_extended_after_a_checkout", "relinks_with_one_wrong_link_among_many", "stores_with_tmp_dir_on_another_filesystem", "sequences_with_a_callers_progress_callback", "workspace_path_relative_to_cwd", "renamed_files_between_versions", "state_reused_after_close", "priors_with_dangling_symlink", "priors_linked_into_another_store", "workspace_path_spelled_non_canonically", "priors_with_interrupted_copy_leftover", "dir_removed_between_checkouts", "priors_with_foreign_hardlinks", "sequences", "second_checkouts_audited", "relinks_checked", "files_link_type_checked", "cache_snapshots_compared",
                     "link_records_checked", "pair/copy->hardlink", "pair/hardlink->symlink", "pair/symlink->copy", "pair/copy->symlink",
                     "pair/hardlink->copy", "pair/symlink->hardlink", "store/local", "store/base", "single_file_cases"]

TYPES = ["copy", "hardlink", "symlink"]


def run_shard(ctx):
    from dvc_data.hashfile import load
    from dvc_data.hashfile.checkout import checkout

    res = ctx.res
    fs = env.localfs()

    for case, rng in ctx.cases(ctx.plan["n"]):

        def one(case=case, rng=rng):
            d = ctx.fresh("c", disk=(case % 9 == 4))
            cls = rng.choice(["local", "local", "base"])
            existing = rng.choice(TYPES)
            configured = rng.choice(TYPES + ["reflink"])
            use_state = rng.random() < 0.6
            single = rng.random() < 0.12
            res.count(f"store/{cls}")
            res.count(f"pair/{existing}->{configured}")
            croot = os.path.join(d, "cache")
            state = env.mk_state(d, os.path.join(d, "tmp")) if use_state else None
            cfg_types = ["reflink", "copy"] if configured == "reflink" else [configured]
            # the store may keep its scratch/index directory (tmp_dir) on another filesystem than its objects and the workspace
            other_mount_tmp = ctx.fresh("storetmp", disk=True) if rng.random() < 0.15 else None
            if other_mount_tmp:
                res.count("stores_with_tmp_dir_on_another_filesystem")
            odb = env.odb_of_class(cls, croot, state=state, type=cfg_types, **({"tmp_dir": other_mount_tmp} if other_mount_tmp else {}))
            odb_prior = env.odb_of_class(cls, croot, state=state, type=[existing])
            pool = [gen.small_content(rng) for _ in range(3)] + [b""]
            if single:
                res.count("single_file_cases")
                T = {("f",): rng.choice(pool) if rng.random() < 0.3 else gen.small_content(rng)}
                tsrc = os.path.join(d, "tsrc")
                os.makedirs(tsrc)
                with open(os.path.join(tsrc, "f"), "wb") as f:
                    f.write(T[("f",)])
                _s, _m, tobj, _r = env.stage_and_transfer(odb, os.path.join(tsrc, "f"))
                T = {(): T[("f",)]}
                O = T
                oobj = tobj
            else:
                T, _e = gen.tree(rng, depth=rng.randrange(0, 4), fanout=3, pool_=pool, dup=0.5, odd=0.25, min_files=1, empty_dirs=False)
                if case % 300 == 11:
                    # a checkout of around a thousand files (batch sizes a bookkeeping step may use)
                    nbig = rng.choice([998, 999, 1000, 1001, 1100])
                    T = {("many", f"f{i:04d}"): b"%d" % (i % 700) for i in range(nbig)}
                    res.count("thousand_file_checkouts")
                O, _e2, _ops = gen.mutate_tree(rng, T, (), pool, kind_swaps=False)
                O = colab.force_kind_agreement(O, T) or dict(T)
                if rng.random() < 0.3:
                    # the other tree holds some of the target's contents under another name (a file was renamed between the two versions)
                    for k_ in sorted(T):
                        if T[k_] and k_ in O and O[k_] == T[k_] and rng.random() < 0.4:
                            nk_ = (*k_[:-1], k_[-1] + "-old-name")
                            if nk_ not in T and nk_ not in O:
                                O[nk_] = O.pop(k_)
                                res.count("renamed_files_between_versions")
                tobj = colab.populate(odb, d, T, "tsrc")
                oobj = colab.populate(odb, d, O, "osrc")
            ws = os.path.join(d, "ws", "out")
            os.makedirs(os.path.dirname(ws))
            # the path handed to checkout may be a legal non-canonical spelling of the workspace path
            spelling = rng.choice(["canonical"] * 5 + ["trailing-separator", "dot", "dotdot", "cwd-relative-bare", "cwd-relative-dotslash", "cwd-relative-nested"]) if not single else "canonical"
            wsp = {"canonical": ws, "trailing-separator": ws + os.sep, "dot": os.path.join(d, "ws", ".", "out"), "dotdot": os.path.join(d, "ws", "out", "..", "out"),
                   "cwd-relative-bare": "out", "cwd-relative-dotslash": os.path.join(".", "out"), "cwd-relative-nested": os.path.join("ws", "out")}[spelling]
            if spelling != "canonical":
                res.count("workspace_path_spelled_non_canonically")
            if spelling.startswith("cwd-relative"):
                # the workspace is named relative to the process's current directory (restored by the caller of one())
                os.chdir(d if spelling == "cwd-relative-nested" else os.path.dirname(ws))
                res.count("workspace_path_relative_to_cwd")
            # prior state: checkout of T or O with the existing link type, then user edits
            from_other = (not single) and rng.random() < 0.5
            prior_files = dict(O if from_other else T)
            if rng.random() < 0.9:
                prior_store = odb_prior
                if existing == "symlink" and not single and rng.random() < 0.35:
                    # the prior workspace is linked into ANOTHER store holding the same objects (the previous cache directory)
                    import shutil as _sh

                    oldroot = os.path.join(d, "old-cache")
                    _sh.copytree(croot, oldroot)
                    prior_store = env.odb_of_class(cls, oldroot, state=state, type=[existing])
                    res.count("priors_linked_into_another_store")
                checkout(ws, fs, load(prior_store, (oobj if from_other else tobj).hash_info), prior_store, force=True, state=state)
                if not single:
                    prior_files, ops = colab.user_edit(rng, ws, prior_files, pool, allow_kind_swaps=False, in_place_ok=(existing == "copy"))
                    prior_files = colab.force_kind_agreement(prior_files, T)
                    # remove from disk what force_kind_agreement dropped from the model
                    for k in walk_files(ws):
                        if k not in prior_files:
                            p = os.path.join(ws, *k)
                            if os.path.lexists(p):
                                os.unlink(p)
            else:
                prior_files = {}
            # some prior files are hard links to a file *outside* the cache (cp -l, a dedup tool, an older cache)
            foreign = 0
            if not single and rng.random() < 0.4:
                els = os.path.join(d, "elsewhere")
                os.makedirs(els, exist_ok=True)
                for j, (k, v) in enumerate(sorted(prior_files.items())):
                    if v and rng.random() < 0.5:
                        src = os.path.join(els, f"e{j}")
                        with open(src, "wb") as f:
                            f.write(v)
                        p = os.path.join(ws, *k)
                        if os.path.lexists(p):
                            os.unlink(p)
                        os.makedirs(os.path.dirname(p), exist_ok=True)
                        os.link(src, p)
                        foreign += 1
                if foreign:
                    res.count("priors_with_foreign_hardlinks")
            # a dangling symbolic link somewhere in the prior workspace (its target was removed): just another path that is not in the target
            dangling = False
            if not single and os.path.isdir(ws) and rng.random() < 0.06:
                lv = rng.choice(sorted({k[:-1] for k in prior_files if os.path.isdir(os.path.join(ws, *k[:-1]))} | {()}))
                os.symlink("/nonexistent/verif-target", os.path.join(ws, *lv, "dangling-link"))
                dangling = True
                res.count("priors_with_dangling_symlink")
            # the leftover of an interrupted copying checkout: a partial file under the temporary name the copy primitive uses
            if not single and os.path.isdir(ws) and rng.random() < 0.12:
                from dvc_objects.fs.utils import tmp_fname

                lv = rng.choice(sorted({k[:-1] for k in prior_files if os.path.isdir(os.path.join(ws, *k[:-1]))} | {()}))
                nm = tmp_fname("")  # as LocalFileSystem.put_file / copy names its partial file
                with open(os.path.join(ws, *lv, nm), "wb") as f:
                    f.write(b"partial copy")
                prior_files[(*lv, nm)] = b"partial copy"
                res.count("priors_with_interrupted_copy_leftover")
            cfg = {"dangling_symlink_in_prior": dangling, "ws_spelling": spelling, "store": cls, "existing": existing, "configured": configured, "state": use_state, "single": single,
                   "target": sorted("/".join(k) for k in T), "prior": sorted("/".join(k) for k in prior_files), "ext4": case % 9 == 4, "foreign_hardlinks": foreign}
            res.evaluated()
            res.count("sequences")
            if prior_files != T or existing != configured:
                res.nontrivial(sorted(T.items()), sorted(prior_files.items()), existing, configured, cls, use_state)
            res.sample(cfg)
            if state is not None and rng.random() < 0.15:
                # the caller closed the hash state earlier and keeps using the object (it reconnects on demand)
                state.close()
                res.count("state_reused_after_close")
            cache_before = store_snapshot(croot)
            target = load(odb, tobj.hash_info)

            def cache_path(data):
                return odb.oid_to_path(H("md5", data))

            def check_bytes(when):
                got = walk_files(ws)
                if dangling:
                    got = {k_: v_ for k_, v_ in got.items() if not (k_[-1:] == ("dangling-link",) and v_ is None)} if not any(
                        os.path.lexists(os.path.join(dp_, "dangling-link")) for dp_, _dn, _fn in os.walk(ws)) else {**got, ("<dangling-link-still-there>",): b""}
                if got != T:
                    missing = sorted(k for k in T if k not in got)
                    extra = sorted(k for k in got if k not in T)
                    wrong = sorted(k for k in T if k in got and got[k] != T[k])
                    kind = "missing" if missing else "extra" if extra else "wrong-bytes"
                    res.violation(f"not-converged/{when}/{kind}", f"workspace != target after {when}: missing={missing[:2]} extra={extra[:2]} wrong={wrong[:2]}",
                                  case=case, detail=cfg)
                    return False
                return True

            def check_links(when):
                want = "copy" if configured == "reflink" else configured
                for k, data in T.items():
                    p = os.path.join(ws, *k) if k else ws
                    res.count("files_link_type_checked")
                    typ, info = colab.link_type_of(p, croot)
                    cp = cache_path(data)
                    ok = True
                    if want == "copy":
                        ok = typ == "copy"
                    elif want == "symlink":
                        ok = typ == "symlink" and info == cp
                    elif want == "hardlink":
                        if len(data) == 0:
                            ok = typ != "symlink"
                        else:
                            ok = typ == "hardlink" and info == os.lstat(cp).st_ino
                    if not ok:
                        res.violation(f"wrong-link-type/{existing}->{want}" + ("" if when == "relink" else "/" + when), f"{'/'.join(k)} is {typ} after {when}, configured {want}", case=case,
                                      detail={**cfg, "file": "/".join(k), "len": len(data)})
                        break

            # the caller may follow the progress through a callback of its own
            own_progress = rng.random() < 0.3
            if own_progress:
                res.count("sequences_with_a_callers_progress_callback")

            def progress():
                if not own_progress:
                    return {}
                from fsspec.callbacks import Callback

                return {"progress_callback": Callback()}

            # 1. forced checkout (or, in a third of the cases, a relinking checkout straight from the prior state)
            direct_relink = rng.random() < 0.3
            cfg["direct_relink"] = direct_relink
            if direct_relink:
                res.count("direct_relink_from_prior")
                checkout(wsp, fs, target, odb, **progress(), force=True, relink=True, state=state)
                if not check_bytes("relink-from-prior"):
                    return
                check_links("relink-from-prior")
            else:
                old = None
                if rng.random() < 0.3 and os.path.lexists(ws) and not dangling:
                    from dvc_data.hashfile.build import build

                    _s0, _m0, old = build(odb, ws, fs, "md5", dry_run=True)
                    res.count("old_given")
                ret1 = checkout(wsp, fs, target, odb, **progress(), force=True, state=state, old=old)
                if not check_bytes("forced-checkout"):
                    return
                if state is not None and ret1 is not None:
                    check_link_record(res, state, ws, fs, case, cfg, "forced-checkout")
            # 2. second checkout: nothing to do, nothing touched
            with Recorder([ws, croot]) as rec:
                ret2 = checkout(wsp, fs, target, odb, **progress(), force=rng.random() < 0.5, state=state)
            res.count("second_checkouts_audited")
            if ret2 is not None:
                res.violation("second-checkout-not-noop/return-value", f"second checkout returned {ret2!r}", case=case, detail=cfg)
            if rec.events:
                res.violation("second-checkout-not-noop/filesystem-mutation", f"second checkout issued {rec.events[:3]}", case=case, detail=cfg)
            check_bytes("second-checkout")
            # 3. relinking checkout -> configured type everywhere
            checkout(wsp, fs, target, odb, **progress(), force=True, relink=True, state=state)
            res.count("relinks_checked")
            if check_bytes("relink"):
                check_links("relink")
            if state is not None:
                check_link_record(res, state, ws, fs, case, cfg, "relink")
            # 4. a second relinking checkout keeps bytes and types
            checkout(wsp, fs, target, odb, **progress(), force=True, relink=True, state=state)
            check_bytes("second-relink")
            # 5. the user removes a sub-directory; checking out the same path again (same process) restores it
            subdirs = sorted({k[:i] for k in T for i in range(1, len(k))}) if not single else []
            if subdirs and rng.random() < 0.6:
                import shutil

                res.count("dir_removed_between_checkouts")
                shutil.rmtree(os.path.join(ws, *rng.choice(subdirs)))
                checkout(wsp, fs, target, odb, **progress(), force=True, relink=rng.random() < 0.3, state=state)
                check_bytes("checkout-after-dir-removed")
            # cache bytes
            res.count("cache_snapshots_compared")
            cache_after = store_snapshot(croot)
            for o, b in cache_before.items():
                if cache_after.get(o) != b:
                    res.violation("cache-bytes-changed", f"cache object {o} {'removed' if o not in cache_after else 'altered'} by checkout", case=case, detail=cfg)
                    break
            if state is not None:
                state.close()
            env.reset_staging()
            ctx.drop(d)
            if other_mount_tmp:
                ctx.drop(other_mount_tmp)

        def part_and_more(case=case, rng=rng):
            """one tree object used several times: a part of it (filter) checked out over the whole, the tree extended after a checkout
            and checked out again, and one wrongly linked file among many under a relinking checkout"""
            from dvc_data.hashfile.hash_info import HashInfo
            from dvc_data.hashfile.meta import Meta

            from ..oracle import H

            d = ctx.fresh("p")
            cls = rng.choice(["local", "local", "base"])
            configured = rng.choice(TYPES)
            state = env.mk_state(d, os.path.join(d, "tmp")) if rng.random() < 0.5 else None
            odb = env.odb_of_class(cls, os.path.join(d, "cache"), state=state, type=[configured])
            many = rng.random() < 0.4
            T = {("top.txt",): gen.small_content(rng) + b"t", ("sub", "a"): gen.small_content(rng) + b"a", ("sub", "deep", "b"): gen.small_content(rng) + b"b",
                 ("other", "c"): gen.small_content(rng) + b"c"}
            if many:
                for i in range(rng.choice([70, 130])):
                    T[("many", f"f{i:03d}")] = b"many %d %d" % (case, i)
            tobj = colab.populate(odb, d, T, "tsrc")
            ws = os.path.join(d, "ws", "out")
            os.makedirs(os.path.dirname(ws))
            tree = load(odb, tobj.hash_info)
            res.evaluated()
            res.count("part_and_more_sequences")
            cfg = {"store": cls, "configured": configured, "state": state is not None, "many": many}

            def same(when, want):
                got = walk_files(ws)
                if got != want:
                    miss, extra = sorted(set(want) - set(got))[:2], sorted(set(got) - set(want))[:2]
                    res.violation(f"not-converged/{when}/" + ("missing" if miss else "extra" if extra else "wrong-bytes"), f"after {when}: missing={miss} extra={extra}", case=case, detail=cfg)
                    return False
                return True

            checkout(ws, fs, tree, odb, force=True, state=state)
            if not same("first-checkout-of-the-whole", T):
                return
            if many:
                # one file among many is linked the wrong way (replaced by a plain copy / by a link): a relinking checkout repairs it
                victim = os.path.join(ws, "many", f"f{rng.randrange(len([k for k in T if k[0] == 'many'])):03d}")
                data = T[("many", os.path.basename(victim))]
                os.unlink(victim)
                cp = odb.oid_to_path(H("md5", data))
                if configured == "copy":
                    os.link(cp, victim)
                else:
                    with open(victim, "wb") as f:
                        f.write(data)
                checkout(ws, fs, tree, odb, force=True, relink=True, state=state)
                res.count("relinks_with_one_wrong_link_among_many")
                st_ = os.lstat(victim)
                import stat as _stat

                ok_ = ((configured == "symlink" and _stat.S_ISLNK(st_.st_mode)) or (configured == "hardlink" and st_.st_ino == os.lstat(cp).st_ino)
                       or (configured == "copy" and not _stat.S_ISLNK(st_.st_mode) and st_.st_ino != os.lstat(cp).st_ino))
                if not ok_:
                    res.violation(f"wrong-link-type/one-among-many/{configured}", f"{os.path.basename(victim)} keeps the wrong link type after a relinking checkout of {len(T)} files", case=case, detail=cfg)
                same("relink-with-one-wrong-link", T)
            # the tree is extended after it has been checked out, digested again and checked out again
            extra_ = gen.small_content(rng) + b"added-later"
            ep_ = os.path.join(d, "extra-src")
            with open(ep_, "wb") as f:
                f.write(extra_)
            odb.add(ep_, fs, H("md5", extra_))
            tree.add(("sub", "added-later"), Meta(size=len(extra_)), HashInfo("md5", H("md5", extra_)))
            tree.digest()
            odb.add(tree.path, tree.fs, tree.oid)
            T2 = {**T, ("sub", "added-later"): extra_}
            checkout(ws, fs, tree, odb, force=True, state=state)
            res.count("checkouts_of_a_tree_extended_after_a_checkout")
            if not same("checkout-of-the-extended-tree", T2):
                return
            # a part of the tree over a workspace that holds the whole: everything outside the part goes
            part = tree.filter(("sub",))
            checkout(ws, fs, part, odb, force=True, state=state)
            res.count("checkouts_of_a_part_over_the_whole")
            same("checkout-of-a-part-over-the-whole", {k: v for k, v in T2.items() if k[0] == "sub"})
            if state is not None:
                state.close()
            env.reset_staging()
            ctx.drop(d)

        def one_in_place(one=one):
            try:
                one()
            finally:
                os.chdir("/")

        ctx.guard(case, part_and_more if case % 40 == 21 else one_in_place)


def check_link_record(res, state, ws, fs, case, cfg, when):
    """The record saved by checkout must describe the workspace as it is now: the link clean-up
    (which recomputes inode and mtime token from the filesystem) must recognise the path as unchanged."""
    res.count("link_records_checked")
    rel = os.path.relpath(ws, state.root_dir)
    try:
        rec = state.links.get(rel)
    except Exception:  # noqa: BLE001
        rec = "unreadable"
    if rec is None:
        res.violation(f"link-record-missing/{when}", f"no link record for {rel} after a checkout that changed the workspace", case=case, detail=cfg)
        return
    unused = state.get_unused_links([], fs)
    if rel not in unused:
        res.violation(f"link-record-does-not-match-workspace/{when}", f"saved record {rec} for {rel} does not match the workspace's current inode/mtime token",
                      case=case, detail=cfg)
