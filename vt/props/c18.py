"""C18 - push and fetch through storage mappings move exactly the reachable objects."""

import itertools
import os

from .. import env, gen
from ..oracle import DIR_SUFFIX, H, canonical_dir_oid, list_store, store_snapshot, walk_files

RULE = (
    "case = index built from a generated nested tree with shared contents (build -> md5 -> save), storage prefixes placed at the "
    "root and/or at top-level directories, each with its own or a shared cache and its own or a shared remote (remote-like "
    "stores, optionally with a remote index), plus cache-only prefixes deeper down for the per-role fallback (checked on "
    "storage_map[key] against an independent longest-prefix resolver).  push(collect(idx, 'remote', push=True)) with a first round "
    "in which a subset of uploads fails (every subset when <= 5 objects, sampled otherwise) and a clean retry; with a remote index, a round in which the remotes lose a closed set of objects (or everything) the index still lists, then a clean push; fetch(collect(idx2, "
    "'remote')) into empty caches (remotes optionally registered read-only for the fetch); checkout from the fetched caches.  Reachable set and designation are computed independently "
    "from the generated data.  non-trivial = >= 2 storage prefixes or a failing subset; distinct = (tree, placement, subset)"
)
ASSUMPTIONS = [
    "every prefix that names a remote also names a cache (collect pairs them per prefix, as dvc does)",
    "storage prefixes sit at the root or at top-level directories; a deeper prefix (inside a directory object) shares its cache with the enclosing prefix and only brings its own remote, so that no directory object spans two caches",
    "collect gathers, for a shorter prefix, also the entries of longer prefixes: a remote may therefore receive a superset of what is designated for it (never an object that is not reachable); the oracle is designated <= remote <= reachable",
    "remotes emulated by a non-local FileSystem over local disk",
]
MONITORS = "os.walk listings of every remote/cache before and after vs independently computed reachable/designated sets; pushed/failed counts vs objects that newly appeared; workspace walk after checkout"
REQUIRED_COUNTERS = ["partial_fetches_before_the_full_one", "cases_collecting_into_one_cache_index", "fetches_followed_through_a_callback", "cases_with_verifying_remotes", "cases_with_an_empty_prefix", "remote_loss_rounds", "remote_objects_lost", "fetches_from_read_only_remotes", "collect_given_a_view", "layout/tops-only", "layout/root+deep", "layout/root+tops", "lazy_index_cases", "pushes", "fetches", "failure_rounds", "retries", "checkouts_from_fetched_cache", "multi_prefix_cases", "role_fallback_checks",
                     "objects_designation_checked", "shared_cache_cases", "exhaustive_subset_cases", "remote_index_cases"]


def resolve(prefix_map, key, role):
    """independent longest-prefix, per-role resolver: prefix_map {prefix: {role: name}}"""
    best = None
    for p, roles in prefix_map.items():
        if key[: len(p)] == p and role in roles:
            if best is None or len(p) > len(best[0]):
                best = (p, roles[role])
    return best[1] if best else None


def run_shard(ctx):
    from dvc_data.index import ObjectStorage, build, md5, save
    from dvc_data.index.checkout import apply, compare
    from dvc_data.index.fetch import collect, fetch
    from dvc_data.index.push import push

    from ..monitors import FaultyFS

    res = ctx.res
    fs = env.localfs()

    for case, rng in ctx.cases(ctx.plan["n"]):

        def one(case=case, rng=rng):
            d = ctx.fresh("p")
            pool = [gen.small_content(rng) for _ in range(3)]
            files, _e = gen.tree(rng, depth=rng.randrange(1, 4), fanout=3, pool_=pool, dup=0.5, odd=0.25, min_files=2, empty_dirs=False)
            ws = os.path.join(d, "ws")
            gen.write_tree(ws, files)
            tops = sorted({k[0] for k in files if len(k) > 1})
            if len(tops) < 2 and rng.random() < 0.7:
                # make sure sibling placements are reachable often
                for j in range(2 - len(tops)):
                    nm = gen.name(rng, used=set(tops) | {k[0] for k in files}, odd=0.2)
                    files[(nm, "f%d" % j)] = rng.choice(pool)
                    if rng.random() < 0.5:
                        files[(nm, "sub", "g%d" % j)] = gen.small_content(rng)
                gen.write_tree(ws, files)
                tops = sorted({k[0] for k in files if len(k) > 1})
            layout = rng.choice(["root-only", "root+tops", "root+tops", "tops-only", "tops-only", "root+deep"])
            prefixes = []
            if layout in ("root-only", "root+tops", "root+deep") or not tops:
                prefixes.append(())
            if layout in ("root+tops", "tops-only"):
                chosen = [t for t in tops if rng.random() < 0.7] or tops[:1]
                prefixes += [(t,) for t in chosen]
            deep_prefixes = []
            if layout == "root+deep":
                deeps = sorted({k[:2] for k in files if len(k) > 2})
                if deeps:
                    deep_prefixes = [rng.choice(deeps)]
                    prefixes += deep_prefixes
            lazy = rng.random() < 0.4
            shared_cache = rng.random() < 0.5 or bool(deep_prefixes)
            shared_remote = rng.random() < 0.35 and not deep_prefixes
            use_rindex = rng.random() < 0.5
            shared_tmp = rng.random() < 0.6
            as_view = rng.random() < 0.4  # hand collect() a filtered view of the index, as dvc does
            verify_remotes = rng.random() < 0.25
            if verify_remotes:
                res.count("cases_with_verifying_remotes")
            empty_prefix = rng.random() < 0.25  # a storage prefix (own cache and remote) that covers no entry of the index
            rng.shuffle(prefixes)  # registration order of the storages varies
            res.count(f"layout/{layout}")
            if lazy:
                res.count("lazy_index_cases")
            if as_view:
                res.count("collect_given_a_view")
            caches, remotes, rfs = {}, {}, {}

            def mk_remote(name):
                rfs[name] = FaultyFS(page_size=rng.choice([None, 10]), jobs=rng.choice([1, 4]))
                # remote indexes live under the repository's one tmp dir (shared by all remotes) or under one dir each
                cfg = {"tmp_dir": os.path.join(d, "rtmp-shared" if shared_tmp else "rtmp-" + name)} if use_rindex else {}
                if verify_remotes:
                    cfg["verify"] = True  # fetch forwards the remote's setting
                remotes[name] = env.remote_odb(os.path.join(d, "remote-" + name), fs=rfs[name], **cfg)

            if empty_prefix:
                prefixes.insert(rng.randrange(len(prefixes) + 1), ("nothing-tracked-here",))
                res.count("cases_with_an_empty_prefix")
            pmap = {}
            for i, p in enumerate(prefixes):
                cn = "c0" if shared_cache else f"c{i}"
                rn = "r0" if shared_remote else f"r{i}"
                if cn not in caches:
                    caches[cn] = env.local_odb(os.path.join(d, "cache-" + cn))
                if rn not in remotes:
                    mk_remote(rn)
                pmap[p] = {"cache": cn, "remote": rn}
            if len(prefixes) > 1:
                res.count("multi_prefix_cases")
            if shared_cache and len(prefixes) > 1:
                res.count("shared_cache_cases")
            if use_rindex:
                res.count("remote_index_cases")

            ro_fetch = rng.random() < 0.3  # the remotes are registered read-only for the fetch (public mirror): still good sources

            def attach(idx, cache_objs, read_only_remotes=False):
                for p, roles in pmap.items():
                    idx.storage_map.add_cache(ObjectStorage(key=p, odb=cache_objs[roles["cache"]]))
                    idx.storage_map.add_remote(ObjectStorage(key=p, odb=remotes[roles["remote"]], **({"read_only": True} if read_only_remotes else {})))

            def lazify(full, cache_objs, read_only_remotes=False):
                """the index a .dvc file describes: top-level directories as single unloaded entries pointing at their objects"""
                from dvc_data.index import DataIndex as _DI
                from dvc_data.index import DataIndexEntry as _DE
                from dvc_data.hashfile.meta import Meta as _M

                out = _DI()
                for k, e in full.iteritems():
                    if len(k) == 1 and e.meta and e.meta.isdir and e.hash_info:
                        out[k] = _DE(key=k, meta=_M(isdir=True), hash_info=e.hash_info)
                    elif len(k) == 1 and not (e.meta and e.meta.isdir):
                        out[k] = _DE(key=k, meta=e.meta, hash_info=e.hash_info)
                attach(out, cache_objs, read_only_remotes)
                return out

            def handed(i):
                if not as_view:
                    return i
                from dvc_data.index import view as _view

                return _view(i, lambda k: True)

            idx = md5(build(ws, fs))
            attach(idx, caches)
            covered = {k: v for k, v in files.items() if resolve(pmap, k, "cache")}
            # entries outside every prefix cannot be saved: keep the index to what the mapping covers
            for k in [k for k in list(idx.keys()) if resolve(pmap, k, "cache") is None]:
                del idx[k]
            save(idx)
            push_idx = lazify(idx, caches) if lazy else idx

            # ---- per-role fallback, checked on the mapping itself (cache-only prefixes deeper down)
            deep = sorted({k[:2] for k in covered if len(k) > 2})
            fmap = {p: dict(r) for p, r in pmap.items()}
            from dvc_data.index import DataIndex

            probe = DataIndex()
            attach(probe, caches)
            extra = {}
            for dk in deep:
                if rng.random() < 0.5:
                    extra[dk] = env.local_odb(os.path.join(d, "cache-deep-" + "-".join(str(abs(hash(x)) % 1000) for x in dk)))
                    probe.storage_map.add_cache(ObjectStorage(key=dk, odb=extra[dk]))
                    fmap[dk] = {**fmap.get(dk, {}), "cache": "deep:" + "/".join(dk)}
            for k in list(covered)[:12]:
                res.count("role_fallback_checks")
                info = probe.storage_map[k]
                wc, wr = resolve(fmap, k, "cache"), resolve(fmap, k, "remote")
                gc_ = info.cache.odb.path if info.cache else None
                gr = info.remote.odb.path if info.remote else None
                ec = (extra[tuple(wc[5:].split("/"))].path if wc and wc.startswith("deep:") else caches[wc].path) if wc else None
                er = remotes[wr].path if wr else None
                if gc_ != ec or gr != er:
                    res.violation("storage-resolution-wrong/" + ("cache" if gc_ != ec else "remote"),
                                  f"storage_map[{k}] resolves to cache={gc_} remote={gr}; longest-prefix per role gives cache={ec} remote={er}",
                                  case=case, detail={"prefixes": [list(p) for p in fmap]})

            # ---- reachable objects and their designation, from the generated data
            reach = {}  # oid -> set of designated remote names
            reach_c = {}
            dirkeys = sorted({k[:i] for k in covered for i in range(1, len(k))})
            for k, v in covered.items():
                reach.setdefault(H("md5", v), set()).add(resolve(pmap, k, "remote"))
                reach_c.setdefault(H("md5", v), set()).add(resolve(pmap, k, "cache"))
            for dk in dirkeys:
                if resolve(pmap, dk, "cache") is None:
                    continue
                if lazy and len(dk) > 1:
                    continue  # sub-directory objects are not named by an index that holds the directory as one entry
                listing = {"/".join(k[len(dk):]): H("md5", v) for k, v in covered.items() if k[: len(dk)] == dk}
                oid = canonical_dir_oid(listing)
                reach.setdefault(oid, set()).add(resolve(pmap, dk, "remote"))
                reach_c.setdefault(oid, set()).add(resolve(pmap, dk, "cache"))
            all_reach = set(reach)
            # collect() groups by remote and keeps the first prefix's cache for it: a remote paired with several caches
            caches_of_remote = {}
            for p, r in pmap.items():
                caches_of_remote.setdefault(r["remote"], set()).add(r["cache"])
            split_remote = {rn for rn, cs in caches_of_remote.items() if len(cs) > 1}
            res.count("objects_designation_checked", len(reach))
            cfg = {"prefixes": {"/".join(p) or "<root>": r for p, r in pmap.items()}, "files": sorted("/".join(k) for k in files)[:12],
                   "reachable": len(all_reach), "layout": layout, "lazy_index": lazy, "shared_cache": shared_cache, "shared_remote": shared_remote, "remote_index": use_rindex, "shared_tmp_dir": shared_tmp, "as_view": as_view}
            res.sample(cfg)

            def remote_state():
                return {n: set(list_store(o.path)[0]) for n, o in remotes.items()}

            # ---- first round with failing uploads, then a clean retry
            objs = sorted(all_reach)
            if len(objs) <= 5:
                subsets = [frozenset(c) for r in range(len(objs) + 1) for c in itertools.combinations(objs, r)]
                res.count("exhaustive_subset_cases")
            else:
                subsets = [frozenset(), frozenset(o for o in objs if rng.random() < 0.3), frozenset([rng.choice(objs)]),
                           frozenset(o for o in objs if not o.endswith(DIR_SUFFIX) and rng.random() < 0.5)]
            max_rounds = 4 if ctx.tier == "quick" else 12
            if len(subsets) > max_rounds:
                subsets = [frozenset()] + rng.sample(subsets[1:], max_rounds - 1)
            for S in subsets:
                for n, o in remotes.items():
                    from ..common import _force_rmtree

                    _force_rmtree(o.path)
                    os.makedirs(o.path)
                    if use_rindex:
                        _force_rmtree(os.path.join(d, "rtmp-shared" if shared_tmp else "rtmp-" + n))
                    mk_remote_again = None
                    _ = mk_remote_again
                res.evaluated()
                res.count("pushes")
                if len(prefixes) > 1 or S:
                    res.nontrivial(lazy, sorted(covered.items()), sorted((p, tuple(sorted(r.items()))) for p, r in pmap.items()), sorted(S))
                # every collect of this case may go into one and the same cache index (the caller keeps what it collected between a
                # dry look and the real push, or between a failed round and its retry)
                ckw = {}
                if rng.random() < 0.25:
                    from dvc_data.index import DataIndex as _DI

                    ckw = {"cache_index": _DI(), "cache_key": ("collected",)}
                    res.count("cases_collecting_into_one_cache_index")
                before = remote_state()
                for n, f in rfs.items():
                    f.fail_put = (lambda p, _o=remotes[n]: (os.path.relpath(p, _o.path).replace(os.sep, "") in S)) if S else None
                pushed1, failed1 = push(collect([handed(lazify(idx, caches) if lazy else idx)], "remote", push=True, **ckw))
                for f in rfs.values():
                    f.fail_put = None
                mid = remote_state()
                info = {**cfg, "failing": sorted(S)}
                appeared1 = sum(len(mid[n] - before[n]) for n in remotes)
                if pushed1 != appeared1:
                    res.violation("pushed-count-wrong", f"push reported {pushed1} pushed, {appeared1} objects newly appeared in the remotes", case=case, detail=info)
                for n in remotes:
                    stray = mid[n] - all_reach
                    if stray:
                        res.violation("remote-holds-unreachable-object", f"remote {n} received {sorted(stray)[:2]}, not reachable from the index", case=case, detail=info)
                    bad = [o for o in S if o in mid[n]]
                    if bad:
                        res.violation("failed-upload-object-present", f"{bad[:2]} present although its upload failed", case=case, detail=info)
                if S:
                    res.count("failure_rounds")
                    if failed1 == 0 and not split_remote and any(S & {o for o in all_reach if n in reach[o]} for n in remotes):
                        res.violation("failures-not-counted", "uploads failed but push reported failed == 0", case=case, detail=info)
                # clean retry
                res.count("retries")
                pushed2, failed2 = push(collect([handed(lazify(idx, caches) if lazy else idx)], "remote", push=True, **ckw))
                after = remote_state()
                if failed2:
                    res.violation("clean-retry-reports-failures", f"retry without faults reported failed={failed2}", case=case, detail=info)
                for o, names in reach.items():
                    for n in names:
                        if n is not None and o not in after[n]:
                            if n in split_remote:
                                res.violation("reachable-object-missing-from-designated-remote/one-remote-paired-with-several-caches",
                                              f"{o} not pushed to remote {n}: collect() pairs a remote with the cache of the first prefix only",
                                              case=case, detail=info)
                                break
                            res.violation("reachable-object-missing-from-designated-remote" + ("/after-failed-round" if S else ""),
                                          f"{o} is reachable and designated for remote {n} but is not there after push", case=case, detail=info)
                            break
                had_to_move = sum(len(after[n] - before[n]) for n in remotes)
                if split_remote:
                    continue
                if pushed1 + failed1 != had_to_move and not S:
                    res.violation("counts-do-not-add-up", f"pushed+failed = {pushed1}+{failed1}, objects that had to move = {had_to_move}", case=case, detail=info)
                if S and pushed1 + pushed2 != had_to_move:
                    res.violation("counts-do-not-add-up/over-retry", f"pushed over both rounds {pushed1}+{pushed2} != objects that moved {had_to_move}", case=case, detail=info)
                if S and failed1 != pushed2:
                    res.violation("failed-count-wrong", f"first round reported failed={failed1}, the clean retry then had to push {pushed2}", case=case, detail=info)
                for n, o in remotes.items():
                    snap = store_snapshot(o.path)
                    for oid, b in snap.items():
                        base = oid[: -len(DIR_SUFFIX)] if oid.endswith(DIR_SUFFIX) else oid
                        if H("md5", b) != base:
                            res.violation("remote-object-wrong-bytes", f"{oid} in remote {n} does not match its name", case=case, detail=info)

            # ---- the remote loses objects that the local remote index still lists (remote-side clean-up, bucket re-created), then a clean push
            if use_rindex and not split_remote:
                from ..oracle import parse_dir_bytes

                res.evaluated()
                res.count("remote_loss_rounds")
                lost_total = 0
                for n, o in remotes.items():
                    robjs = list_store(o.path)[0]
                    listings = {}
                    for oid, pth in robjs.items():
                        if oid.endswith(DIR_SUFFIX):
                            with open(pth, "rb") as f:
                                listings[oid] = set(parse_dir_bytes(f.read())[0].values())
                    if rng.random() < 0.4 or not listings:
                        lose = set(robjs)  # everything
                    else:
                        D = set(rng.sample(sorted(listings), rng.randrange(1, len(listings) + 1)))
                        while True:  # closed: no directory object is left behind without one of its files
                            F = set().union(*(listings[x] for x in D)) if D else set()
                            D2 = D | {x for x, l in listings.items() if l & F}
                            if D2 == D:
                                break
                            D = D2
                        lose = D | F
                    for oid in lose:
                        if oid in robjs:
                            os.unlink(robjs[oid])
                            lost_total += 1
                res.count("remote_objects_lost", lost_total)
                pushed3, failed3 = push(collect([handed(lazify(idx, caches) if lazy else idx)], "remote", push=True, **ckw))
                after3 = remote_state()
                res.nontrivial("remote-loss", sorted(covered.items()), sorted((p, tuple(sorted(r.items()))) for p, r in pmap.items()), lost_total)
                done = False
                for oid, names in reach.items():
                    for n in names:
                        if n is not None and oid not in after3[n]:
                            res.violation("reachable-object-missing-from-designated-remote/after-remote-lost-indexed-objects",
                                          f"{oid} is designated for remote {n}; the remote had lost objects its index still listed and a clean push did not restore it "
                                          f"(pushed={pushed3} failed={failed3})", case=case, detail=cfg)
                            done = True
                            break
                    if done:
                        break

            # ---- fetch into empty caches, then checkout from them
            if split_remote:
                res.count("fetch_skipped_checks_split_remote")
                env.reset_staging()
                ctx.drop(d)
                return
            res.count("fetches")
            fresh = {n: env.local_odb(os.path.join(d, "fetched-" + n)) for n in caches}
            idx2 = md5(build(ws, fs))
            for k in [k for k in list(idx2.keys()) if resolve(pmap, k, "cache") is None]:
                del idx2[k]
            # carry the directory hashes over (what a .dvc file would hold)
            for k, e in idx.iteritems():
                if e.meta and e.meta.isdir and e.hash_info and k in idx2:
                    idx2[k].hash_info = e.hash_info
            idx2.storage_map = type(idx2.storage_map)()
            attach(idx2, fresh, read_only_remotes=ro_fetch)
            if ro_fetch:
                res.count("fetches_from_read_only_remotes")
            if lazy:
                idx2 = lazify(idx2, fresh, read_only_remotes=ro_fetch)
            fkw = {}
            if rng.random() < 0.3:
                # the caller follows the fetch through a progress callback of its own
                from fsspec.callbacks import Callback as _CB

                fkw = {"callback": _CB()}
                res.count("fetches_followed_through_a_callback")
            pre_fetched = 0
            if not lazy and not split_remote and rng.random() < 0.2:
                # first only a part is fetched (one file and the directories above it - what a granular fetch of one target does), then all of it
                from dvc_data.index import view as _view

                fk_ = rng.choice(sorted(k for k, e in idx2.iteritems() if not (e.meta and e.meta.isdir)) or [None])
                if fk_ is not None:
                    part_ = _view(idx2, lambda key, fk_=fk_: key == fk_[: len(key)])
                    fetch(collect([part_], "remote"))
                    pre_fetched = sum(len(store_snapshot(o.path)) for o in fresh.values())
                    res.count("partial_fetches_before_the_full_one")
            fetched, ffailed = fetch(collect([handed(idx2)], "remote"), **fkw)
            cstate = {n: store_snapshot(o.path) for n, o in fresh.items()}
            fetched += pre_fetched
            if ffailed:
                res.violation("fetch-reports-failures", f"fault-free fetch reported failed={ffailed}", case=case, detail=cfg)
            if fetched != sum(len(v) for v in cstate.values()) and not split_remote:
                res.violation("fetched-count-wrong", f"fetch reported {fetched}, {sum(len(v) for v in cstate.values())} objects appeared", case=case, detail=cfg)
            for o, names in reach_c.items():
                for n in names:
                    if n is not None and o not in cstate[n]:
                        if split_remote:
                            res.count("fetch_skipped_checks_split_remote")
                            break
                        res.violation("reachable-object-missing-from-designated-cache", f"{o} not fetched into cache {n}", case=case, detail=cfg)
                        break
            for n, snap in cstate.items():
                for oid, b in snap.items():
                    base = oid[: -len(DIR_SUFFIX)] if oid.endswith(DIR_SUFFIX) else oid
                    if oid not in all_reach:
                        res.violation("cache-holds-unreachable-object", f"cache {n} received {oid}", case=case, detail=cfg)
                    if H("md5", b) != base:
                        res.violation("fetched-object-wrong-bytes", f"{oid} in cache {n} does not match its name", case=case, detail=cfg)
            res.count("checkouts_from_fetched_cache")
            out = os.path.join(d, "out")
            os.makedirs(out)
            errs = []
            apply(compare(None, idx2), out, fs, storage="cache", onerror=lambda s, dst, e: errs.append((dst, repr(e))), update_meta=False)
            got = walk_files(out)
            if (got != covered or errs) and not split_remote:
                missing = sorted(k for k in covered if k not in got)
                res.violation("checkout-from-fetched-cache-differs", f"missing={missing[:2]} errors={errs[:2]}", case=case, detail=cfg)
            env.reset_staging()
            ctx.drop(d)

        ctx.guard(case, one)
