"""C15 - a crash at any point leaves the store valid, and re-running recovers."""

from ..common import case_rng
from ..crashlab import crash_rounds

RULE = (
    "case = (scenario in {stage+transfer into a local store with state, index save of nested directories (every directory with an entry, or only the top-level ones; copying or with hardlink=True), store-to-store transfer (plain, expanded, or keeping a destination index), store-to-store "
    "transfer, upload staging, plain add of hashed files}, generated nested tree with duplicates and empty files, kill point n, "
    "plain or partial); the child process os._exit()s before the n-th filesystem-mutating audit event it issues under the "
    "scenario root (quick: two trees per scenario (one for the two newest scenarios; two more, object-name events only, for the scenarios with a link-attempt window), every 30th event plus every event that touches a final object name (and the one after it); "
    "thorough: every event), optionally after writing half of a copy or creating the file being opened; the parent audits the "
    "store, the state DB and closure, re-runs the operation in a fresh process and compares with an uninterrupted golden run.  "
    "non-trivial = the child really died at the kill point; distinct = (scenario, tree, n, variant)"
)
ASSUMPTIONS = [
    "crash = process death at a Python-visible filesystem event (audit hook), page cache survives: no power-loss / fsync model",
    "SQLite's own journaling is trusted for kills inside a transaction (kills land between Python-level calls)",
    "event order is reproducible for a fixed PYTHONHASHSEED and a master copy (single-threaded copies: jobs=1)",
    "reflink is unavailable here, so the link-attempt window is exercised through its failure path",
]
MONITORS = "post-mortem audit (independent re-hash, mode bits, State.get vouching, closure) after every kill; re-run vs golden run"
REQUIRED_COUNTERS = ["crash_children", "reruns", "killed_at/rename", "killed_at/chmod", "killed_at/copyfile/partial", "killed_at/open-w/partial"]
EXHAUSTIVE = {"quick": False, "thorough": True}

SCENARIOS = ["stage-transfer", "index-save", "store-to-store", "upload-staging", "add-files", "index-save-sparse", "store-to-store-expanded", "index-save-hardlink", "store-to-store-index", "store-to-store-index-jobs"]


def run_shard(ctx):
    per = 2 if ctx.tier == "quick" else 8
    every = 30 if ctx.tier == "quick" else 1
    jobs = []
    for t in range(per):
        for sc in (SCENARIOS if (ctx.tier != "quick" or t == 0) else SCENARIOS[:4]):
            if ctx.tier == "quick" and sc == "store-to-store-index-jobs":
                continue  # quick: once, below, at the object-name events only
            jobs.append((sc, t, every))
    if ctx.tier != "quick":
        jobs.append(("store-to-store-index-wide", 0, 1))  # > 1000 objects; its kill points are chosen in crash_rounds
        jobs.append(("store-to-store-expanded-wide", 0, 1))  # a directory of ~80 files requested alone (expanded); kills in the tail
    if ctx.tier == "quick":
        # further trees for the scenarios with a link-attempt window, killed only at the events that touch a final object name
        for t in (2, 3):
            for sc in ("upload-staging", "index-save-hardlink", "add-files"):
                jobs.append((sc, t, 10**6))
        jobs.append(("store-to-store-index-jobs", 2, 10**6))
    # (scenario, tree) jobs are dealt to groups of shards; the kill points of a job are striped over the shards of its group
    # (every shard of a group rebuilds the same master and recording from the same rng)
    ngroups = 4 if ctx.nshards % 4 == 0 and ctx.nshards >= 8 else 1
    members = [s_ for s_ in range(ctx.nshards) if s_ % ngroups == ctx.shard % ngroups]
    stripe = (members.index(ctx.shard), len(members))
    for ji, (sc, t, ev) in enumerate(jobs):
        case = (SCENARIOS.index(sc) if sc in SCENARIOS else {"store-to-store-index-wide": 90, "store-to-store-expanded-wide": 91}[sc]) + 100 * t  # stable per (scenario, tree): adding scenarios does not change other cases' data
        if ctx.replay_case is not None and ctx.replay_case != case:
            continue
        if ctx.replay_case is None and ji % ngroups != ctx.shard % ngroups:
            continue
        if ctx.out_of_time():
            ctx.res.count("stopped_by_time_budget")
            return
        rng = case_rng(ctx.pid, ctx.seed, 0, case, "master")  # identical master in every shard
        ctx.guard(case, crash_rounds, ctx, sc, rng, case, ev, None, True, f"t{t}", stripe if ctx.replay_case is None else (0, 1))
