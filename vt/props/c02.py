"""C02 - stage -> store -> checkout round trip reproduces the data exactly."""

import os

from .. import env, gen, indexlab
from ..oracle import H, canonical_dir_oid, walk_dirs, walk_files

RULE = (
    "case = (generated tree or single file: depth <= 4, fan-out <= 4, odd names, duplicate / empty / CRLF / around-1MiB contents, "
    "empty directories; store class local/base; link type default(reflink->copy)/copy/hardlink/symlink; state on/off; route: "
    "object-level checkout, index compare/apply with explicit file entries, index compare/apply with the directory as one "
    "unloaded entry at the top, at a nested key or at the index's root key, explicit entries resolved through two caches (the nested one registered first); optionally: directory named with a trailing separator or through //, /./, /x/../ spellings, writable debris under final object names in a local store before the transfer, another location with shared contents staged for the same store and rewritten/removed between staging and transfer).  Bytes and paths of the checked-out location are compared with the "
    "generator's record; the reloaded directory object with an independently assembled listing.  non-trivial = >= 2 files or a "
    "nested path; distinct = (tree content, configuration)"
)
ASSUMPTIONS = [
    "reflink is unavailable on this sandbox's filesystems: the default link type exercises the fallback to copy",
    "reads follow symbolic links (link type itself is C10's subject)",
    "empty directories are not tracked (as the statement says) and are not expected back",
]
MONITORS = "independent walk of the fresh location; reloaded Tree listing vs independent listing; reported nfiles/size vs data"
REQUIRED_COUNTERS = ["stores_configured_to_verify", "transfers_with_a_value_returning_status_hook", "shallow_transfers_before_the_full_one", "index_persisted_and_reopened_before_checkout", "staged_through_non_normalised_path", "staged_through_trailing_separator", "debris_objects_planted", "interleaved_stagings", "second_generation_roundtrips", "dirs_with_several_large_files", "restaged_after_checkout", "roundtrips", "files_compared", "route/object", "route/index-explicit", "route/index-lazy", "route/index-lazy-root", "two_cache_roundtrips", "single_file_cases",
                     "store/local", "store/base", "link/hardlink", "link/symlink", "link/copy", "link/default", "with_state", "listing_reloads"]


def run_shard(ctx):
    from dvc_data.hashfile import load
    from dvc_data.hashfile.checkout import checkout
    from dvc_data.hashfile.hash_info import HashInfo
    from dvc_data.hashfile.meta import Meta
    from dvc_data.hashfile.tree import Tree
    from dvc_data.index import DataIndex, DataIndexEntry, ObjectStorage
    from dvc_data.index.checkout import apply, compare

    res = ctx.res
    fs = env.localfs()

    for case, rng in ctx.cases(ctx.plan["n"]):

        def one(case=case, rng=rng):
            d = ctx.fresh("r")
            single = rng.random() < 0.15
            cls = rng.choice(["local", "local", "base"])
            link = rng.choice(["default", "copy", "hardlink", "symlink"])
            use_state = rng.random() < 0.5
            route = rng.choice(["object", "object", "index-explicit", "index-lazy", "index-lazy-root"])
            big = 0.04 if rng.random() < 0.3 else 0.0
            if single:
                files = {(gen.name(rng, odd=0.4),): gen.content(rng, big=0.1)}
                empties = set()
                if route in ("index-lazy", "index-lazy-root"):
                    route = "index-explicit"
            else:
                files, empties = gen.tree(rng, depth=rng.randrange(0, 5), fanout=4, odd=0.35, dup=0.4, min_files=1, big=big)
                if rng.random() < 0.06:
                    base = rng.choice([()] + sorted({k[:-1] for k in files}))
                    for j, c in enumerate(gen.big_files(rng)):
                        files[(*base, f"big{j}")] = c
                    if rng.random() < 0.5:
                        # the same large contents once more elsewhere
                        files[("copy-of-big",)] = files[(*base, "big0")]
                    res.count("dirs_with_several_large_files")
            src = os.path.join(d, "src")
            out = os.path.join(d, "out", "x")
            os.makedirs(os.path.dirname(out))
            state = env.mk_state(d, os.path.join(d, "tmp")) if use_state else None
            cfg = {"type": [link]} if link != "default" else {}
            if rng.random() < 0.15:
                # a store configured to verify whatever it is given
                cfg["verify"] = True
                res.count("stores_configured_to_verify")
            odb = env.odb_of_class(cls, os.path.join(d, "cache"), state=state, **cfg)
            if single:
                (k0,) = files
                os.makedirs(src)
                spath = os.path.join(src, k0[0])
                with open(spath, "wb") as f:
                    f.write(files[k0])
            else:
                gen.write_tree(src, files, empties)
                spath = src
            res.evaluated()
            res.count("roundtrips")
            res.count(f"route/{route}")
            res.count(f"store/{cls}")
            res.count(f"link/{link}")
            if use_state:
                res.count("with_state")
            if single:
                res.count("single_file_cases")
            listing = {"/".join(k): H("md5", v) for k, v in files.items()}
            cfgd = {"single": single, "store": cls, "link": link, "state": use_state, "route": route, "files": len(files),
                    "paths": sorted(listing)[:8], "empty_dirs": len(empties), "bytes": sum(len(v) for v in files.values())}
            if len(files) >= 2 or any(len(k) > 1 for k in files):
                res.nontrivial(sorted(listing.items()), cls, link, use_state, route)
            res.sample(cfgd)

            from dvc_data.hashfile.transfer import transfer as _transfer

            if not single and rng.random() < 0.25:
                # the directory is named through a legal non-canonical spelling (shell completion, os.path.join(d, ""), joined configuration values)
                sp_ = rng.choice(["trailing-separator", "trailing-separator", "double-slash", "dot", "dotdot", "cwd", "cwd-relative"])
                spath = {"trailing-separator": spath + os.sep, "double-slash": d + "//src", "dot": d + "/./src", "dotdot": d + "/src/../src",
                         "cwd": ".", "cwd-relative": "src"}[sp_]
                if sp_ in ("cwd", "cwd-relative"):
                    # the directory is named relative to the process's working directory
                    os.chdir(src if sp_ == "cwd" else d)
                cfgd["source_path_spelling"] = sp_
                res.count("staged_through_trailing_separator" if sp_ == "trailing-separator" else "staged_through_non_normalised_path")
            if cls == "local" and rng.random() < 0.15:
                # debris of an interrupted earlier attempt: still-writable, invalid files under final object names
                victims = [v for v in files.values() if len(v) > 0]
                rng.shuffle(victims)
                for v in victims[: rng.randrange(1, 3)]:
                    dp = odb.oid_to_path(H("md5", v))
                    os.makedirs(os.path.dirname(dp), exist_ok=True)
                    with open(dp, "wb") as f:
                        f.write(b"" if rng.random() < 0.5 else v[: len(v) // 2])
                    os.chmod(dp, 0o644)
                    res.count("debris_objects_planted")
                cfgd["debris"] = True
            _st, meta, obj = env.stage(odb, spath)  # (the working directory stays where it is until the staged references have been used)
            if rng.random() < 0.2:
                # between staging and transfer, another location sharing contents is staged for the same store and then changes
                other = os.path.join(d, "other")
                shared = rng.sample(sorted(files), min(len(files), rng.randrange(1, 4)))
                ofiles = {(f"o{i}",): files[k] for i, k in enumerate(shared)}
                gen.write_tree(other, ofiles, set())
                env.stage(odb, other if rng.random() < 0.7 else os.path.join(other, "o0"))
                for k in ofiles:
                    op_ = os.path.join(other, *k)
                    if rng.random() < 0.5:
                        os.unlink(op_)
                    else:
                        with open(op_, "wb") as f:
                            f.write(b"rewritten " + gen.small_content(rng))
                res.count("interleaved_stagings")
                cfgd["interleaved_staging"] = True
            if not single and rng.random() < 0.15:
                # first only the directory object goes over (a shallow transfer), then the full one
                _transfer(_st, odb, {obj.hash_info}, shallow=True, hardlink=False)
                res.count("shallow_transfers_before_the_full_one")
                cfgd["shallow_first"] = True
            hook_ = {}
            if rng.random() < 0.2:
                # the caller watches the status through a hook that returns a value (the library's own hook returns None): no effect
                back_ = rng.choice(["False", "bool(missing)", "status"])
                hook_ = {"validate_status": {"False": lambda st_: False, "bool(missing)": lambda st_: bool(st_.missing), "status": lambda st_: st_}[back_]}
                res.count("transfers_with_a_value_returning_status_hook")
                cfgd["status_hook_returns"] = back_
            try:
                r = _transfer(_st, odb, {obj.hash_info}, shallow=False, hardlink=False, **hook_)
            finally:
                os.chdir("/")
            if r.failed:
                res.violation("transfer-of-staged-objects-failed", f"{len(r.failed)} objects failed", case=case, detail=cfgd)
                return
            if single:
                if obj.hash_info.value != H("md5", files[k0]) or meta.size != len(files[k0]):
                    res.violation("single-file-hash-or-size", "staged file's hash/size do not match its content", case=case, detail=cfgd)
            else:
                total = sum(len(v) for v in files.values())
                if meta.nfiles != len(files) or meta.size != total:
                    res.violation("reported-count-or-size", f"nfiles/size {meta.nfiles}/{meta.size} != {len(files)}/{total}", case=case, detail=cfgd)
                if obj.hash_info.value != canonical_dir_oid(listing):
                    res.violation("built-oid-not-canonical", "directory object id differs from the canonical id of the generated listing", case=case, detail=cfgd)
                res.count("listing_reloads")
                exp_list = [{"md5": listing[r_], "relpath": r_} for r_ in sorted(listing)]
                reloaded = Tree.load(odb, obj.hash_info)
                if reloaded.as_list() != exp_list or obj.as_list() != exp_list:
                    res.violation("reloaded-listing-differs", "Tree.load(...).as_list() != the listing that was built / generated", case=case, detail=cfgd)

            links = None if link == "default" else [link]
            if route == "object":
                target = obj if rng.random() < 0.5 else load(odb, obj.hash_info)
                checkout(out, fs, target, odb, force=False, state=state)
            else:
                idx = DataIndex()
                idx.storage_map.add_cache(ObjectStorage(key=(), odb=odb))
                top = "x"
                if single:
                    idx[(top,)] = DataIndexEntry(key=(top,), meta=Meta(size=len(files[k0])), hash_info=HashInfo("md5", H("md5", files[k0])))
                elif route == "index-lazy-root":
                    # the directory object sits at the index's root key: the checkout location itself is the directory
                    idx[()] = DataIndexEntry(key=(), meta=Meta(isdir=True), hash_info=HashInfo("md5", obj.hash_info.value))
                elif route == "index-explicit":
                    idx[(top,)] = DataIndexEntry(key=(top,), meta=Meta(isdir=True), loaded=True)
                    for dk in indexlab.dirs_of(files):
                        idx[(top, *dk)] = DataIndexEntry(key=(top, *dk), meta=Meta(isdir=True), loaded=True)
                    for k, v in files.items():
                        idx[(top, *k)] = DataIndexEntry(key=(top, *k), meta=Meta(size=len(v)), hash_info=HashInfo("md5", H("md5", v)))
                else:
                    dirs = sorted(indexlab.dirs_of(files))
                    at = () if (not dirs or rng.random() < 0.6) else rng.choice(dirs)
                    if at:
                        oid = indexlab.put_dir_object(odb, files, at)
                    else:
                        oid = obj.hash_info.value
                    idx[(top,)] = DataIndexEntry(key=(top,), meta=Meta(isdir=True), loaded=True if at else None,
                                                 hash_info=None if at else HashInfo("md5", oid))
                    if at:
                        for i in range(1, len(at)):
                            idx[(top, *at[:i])] = DataIndexEntry(key=(top, *at[:i]), meta=Meta(isdir=True), loaded=True)
                        idx[(top, *at)] = DataIndexEntry(key=(top, *at), meta=Meta(isdir=True), hash_info=HashInfo("md5", oid))
                        for k, v in files.items():
                            if k[: len(at)] != at:
                                for i in range(1, len(k)):
                                    if (top, *k[:i]) not in idx:
                                        idx[(top, *k[:i])] = DataIndexEntry(key=(top, *k[:i]), meta=Meta(isdir=True), loaded=True)
                                idx[(top, *k)] = DataIndexEntry(key=(top, *k), meta=Meta(size=len(v)), hash_info=HashInfo("md5", H("md5", v)))
                    cfgd["lazy_at"] = "/".join(at)
                errors = []
                if route == "index-explicit" and not single and rng.random() < 0.3:
                    # the files of one sub-directory live in a second cache, mounted at that prefix and registered FIRST
                    subdirs_ = sorted(indexlab.dirs_of(files))
                    if subdirs_:
                        from dvc_data.index.index import StorageMapping as _SM

                        sp_ = rng.choice(subdirs_)
                        odb2 = env.odb_of_class(cls, os.path.join(d, "cache-sub"), state=state, **cfg)
                        for k_, v_ in files.items():
                            if k_[: len(sp_)] == sp_:
                                o_ = H("md5", v_)
                                src_ = odb.oid_to_path(o_)
                                if os.path.exists(src_) and not any(files[k2] == v_ and k2[: len(sp_)] != sp_ for k2 in files):
                                    odb2.add(src_, fs, o_)
                                    os.chmod(src_, 0o644)
                                    os.unlink(src_)
                                elif os.path.exists(src_):
                                    odb2.add(src_, fs, o_)
                        idx.storage_map = _SM()
                        idx.storage_map.add_cache(ObjectStorage(key=(top, *sp_), odb=odb2))
                        idx.storage_map.add_cache(ObjectStorage(key=(), odb=odb))
                        cfgd["second_cache_at"] = "/".join(sp_)
                        res.count("two_cache_roundtrips")
                if route == "index-lazy" and rng.random() < 0.3:
                    # the index lives in SQLite: filled and expanded in one session, checked out in the next
                    dbp = os.path.join(d, "index.db")
                    pidx = DataIndex.open(dbp)
                    pidx.storage_map = idx.storage_map
                    for k_, e_ in list(idx._trie.items()):  # the raw entries as given: nothing is expanded by this copy
                        pidx[k_] = e_
                    pidx.commit()
                    pidx.load()
                    pidx.commit()
                    pidx.close()
                    sm_ = idx.storage_map
                    idx = DataIndex.open(dbp)
                    idx.storage_map = sm_
                    res.count("index_persisted_and_reopened_before_checkout")
                    cfgd["sqlite_reopened"] = True
                diff = compare(None, idx)
                apply(diff, out if route == "index-lazy-root" else os.path.dirname(out), fs, storage="cache", links=links, state=state,
                      onerror=lambda s, dst, e: errors.append((dst, repr(e))), update_meta=rng.random() < 0.5)
                if errors:
                    res.violation("index-checkout-reported-errors", f"apply reported {errors[:2]}", case=case, detail=cfgd)

            got = walk_files(out)
            exp = {(): files[k0]} if single else files
            res.count("files_compared", len(exp))
            if got != exp:
                missing = sorted(k for k in exp if k not in got)
                extra = sorted(k for k in got if k not in exp)
                wrong = sorted(k for k in exp if k in got and got[k] != exp[k])
                kind = "missing-path" if missing else "extra-path" if extra else "wrong-bytes"
                res.violation(f"roundtrip-differs/{kind}/{route}", f"checked-out data differs: missing={missing[:2]} extra={extra[:2]} wrong={wrong[:2]}",
                              case=case, detail=cfgd)
            if got == exp and rng.random() < 0.6:
                # second leg: staging what was checked out (through the same hash-state cache) gives the same object again
                from dvc_data.hashfile.build import build as _build

                res.count("restaged_after_checkout")
                _s2, m2, obj2 = _build(odb, out, fs, "md5", dry_run=True)
                if obj2.hash_info.value != obj.hash_info.value:
                    res.violation("restaging-the-checkout-gives-another-object" + ("/with-state" if use_state else ""),
                                  f"stage(checkout(x)) = {obj2.hash_info.value}, x = {obj.hash_info.value}", case=case, detail=cfgd)
            if got == exp and not single and use_state and rng.random() < 0.5:
                same = {}
                for k, v in files.items():
                    same.setdefault(len(v), []).append(k)
                pairs = [ks for ks in same.values() if len(ks) >= 2 and files[ks[0]] != files[ks[1]]]
                if pairs:
                    res.count("second_generation_roundtrips")
                    a, b = pairs[0][0], pairs[0][1]
                    pa, pb = os.path.join(src, *a), os.path.join(src, *b)
                    st = os.stat(pa)
                    os.utime(pb, ns=(st.st_atime_ns, st.st_mtime_ns))  # e.g. unpacked from one archive: identical mtimes
                    os.replace(pa, pa + ".swap")
                    os.replace(pb, pa)
                    os.replace(pa + ".swap", pb)
                    files2 = dict(files)
                    files2[a], files2[b] = files[b], files[a]
                    _st2, _meta2, objg2, r2 = env.stage_and_transfer(odb, src)
                    out2 = os.path.join(d, "out2", "x")
                    os.makedirs(os.path.dirname(out2))
                    checkout(out2, fs, objg2, odb, force=True, state=state)
                    if walk_files(out2) != files2:
                        res.violation("second-generation-roundtrip-differs", "after two equal-sized files were swapped by rename (mtimes preserved) and the tree staged again "
                                      "through the same hash-state cache, checkout does not reproduce the data", case=case, detail=cfgd)
            if not single:
                # no path invented as a directory either
                inv = sorted(dk for dk in walk_dirs(out) if dk not in indexlab.dirs_of(files))
                if inv:
                    res.violation("roundtrip-differs/invented-directory", f"directories {inv[:2]} are not in the data", case=case, detail=cfgd)
            if state is not None:
                state.close()
            env.reset_staging()
            ctx.drop(d)

        ctx.guard(case, one)
