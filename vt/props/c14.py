"""C14 - hashing is correct, chunking-independent, and a faithful pass-through."""

import io
import os

from .. import gen
from ..oracle import H, _is_text_block

RULE = (
    "case = (content from the generator classes {empty,1 byte,text LF/CRLF/mixed,binary,NUL late,~30% non-text} x sizes "
    "around 512 / 4096 / 2^20, algorithm name incl. case variants and blake3, entry point, read-size sequence; streams over sources with short reads, optionally with transient read failures that the consumer retries, optionally with the digest looked at between reads); "
    "non-trivial = non-empty content; distinct = (size bucket, text/binary, algorithm, entry point, read-size class)"
)
ASSUMPTIONS = [
    "reference digests come from hashlib / the blake3 wheel",
    "md5-dos2unix read sizes are >= 512 as the stream itself requires",
    "case variants are exercised through the stream entry points (HashStreamFile, get_hash_stream, fobj_md5, file_md5)",
]
MONITORS = "digest / passthrough bytes / byte count compared with hashlib on every evaluation"
REQUIRED_COUNTERS = ["file_handles_hashed_from_their_position", "reads_of_whole_mebibytes", "file_md5_with_a_used_progress_callback", "legacy_stream_counts_checked", "control_heavy_ascii_contents", "long_first_line_texts", "hash_file_over_index_filesystem", "dos2unix_case_variant_checks", "midway_digest_peeks", "streams_with_transient_read_failures", "transient_read_failures_retried", "interleaved_stream_pairs", "short_read_streams", "stream_checks", "fobj_md5_checks", "hash_file_checks", "dos2unix_variant_checks", "memfs_checks"]

PLAIN = ["md5", "sha1", "sha256", "sha512", "blake3", "sha224", "sha384", "md5-sha1", "sha3_256", "blake2b", "sha512_256"]
VARIANTS = ["MD5", "Md5", "SHA256", "Sha256", "BLAKE3", "Blake3", "SHA1", "sHa512", "MD5-SHA1"]


def _read_sizes(rng, n):
    """a read-size plan: list of sizes (cycled) ; tiny sizes only for small inputs"""
    kinds = ["all", "big", "page", "sniff", "mixed", "with-zero"]
    if n <= 6000:
        kinds += ["one", "seven", "random-small"]
    k = rng.choice(kinds)
    if k == "with-zero":
        return k, [rng.choice([1, 64, 4096]) if n <= 6000 else 4096, 0, rng.choice([512, 4096, 2**20])]
    if k == "all":
        return k, [-1]
    if k == "big":
        return k, [2**20]
    if k == "page":
        return k, [4096]
    if k == "sniff":
        return k, [rng.choice([511, 512, 513])]
    if k == "one":
        return k, [1]
    if k == "seven":
        return k, [7]
    if k == "random-small":
        return k, [rng.randrange(1, 64) for _ in range(16)]
    return k, [rng.choice([512, 1000, 4096, 65536, 2**20, 2**20 + 1]) for _ in range(8)]


class ShortReader(io.RawIOBase):
    """An underlying stream that returns short reads before EOF (pipe / socket / raw file behaviour)."""

    def __init__(self, data, rng, minimum=1, fail=0.0):
        super().__init__()
        self.data, self.pos, self.rng, self.minimum = data, 0, rng, minimum
        self.returned = []
        self.fail, self.failures = fail, 0

    def readable(self):
        return True

    def tell(self):
        return self.pos

    def read(self, n=-1):
        left = len(self.data) - self.pos
        if left <= 0 or n == 0:
            return b""
        if self.fail and self.failures < 20 and self.rng.random() < self.fail:
            # a transient failure (timeout / reset): this read hands out nothing and consumes nothing; the caller may simply retry
            self.failures += 1
            raise TimeoutError("injected transient read failure (verif)")
        want = left if n is None or n < 0 else min(n, left)
        k = want if self.rng.random() < 0.3 else self.rng.randrange(min(self.minimum, want), want + 1)
        k = max(1, k)
        out = self.data[self.pos : self.pos + k]
        self.pos += k
        self.returned.append(k)
        return out


def _ref_by_chunks(data, chunks, dos2unix):
    import hashlib

    m = hashlib.md5()  # noqa: S324
    off = 0
    for k in chunks:
        c = data[off : off + k]
        off += k
        if dos2unix and _is_text_block(c[:512]):
            c = c.replace(b"\r\n", b"\n")
        m.update(c)
    return m.hexdigest()


def _drain(stream, sizes, peek=None, retry=False):
    out = bytearray()
    i = 0
    while True:
        n = sizes[i % len(sizes)]
        i += 1
        try:
            b = stream.read(n)
        except TimeoutError:
            if not retry:
                raise
            i -= 1
            continue
        if peek is not None and b:
            out += b
            peek(stream, out)
            del out[len(out) - len(b):]
        if n == 0:
            # a zero-length read returns nothing and is not the end of the data
            assert b == b""
            if all(s == 0 for s in sizes):
                break
            continue
        if not b:
            break
        out += b

    return bytes(out)


def _bucket(n):
    for b in (0, 1, 511, 512, 513, 4096, 2**20 - 1, 2**20, 2**20 + 1):
        if n <= b:
            return b
    return 2**21


def run_shard(ctx):
    from dvc_objects.fs import MemoryFileSystem

    from dvc_data.hashfile import hash as hmod
    from dvc_data.hashfile.hash import HashStreamFile, file_md5, fobj_md5, get_hash_stream, hash_file

    from ..env import localfs

    res = ctx.res
    lfs = localfs()
    memfs = MemoryFileSystem()
    d = ctx.fresh("h")
    n_cases = ctx.plan["n"]

    def bad(key, what, case, **detail):
        res.violation(key, what, case=case, detail=detail)

    for case, rng in ctx.cases(n_cases):
        def one(case=case, rng=rng):
            data = gen.content(rng, big=0.05 if ctx.tier == "quick" else 0.08)
            if rng.random() < 0.06:
                # 7-bit, NUL-free content full of control characters (binary by the 30 % rule) with CRLF pairs in it
                ctl = bytes([1, 2, 3, 4, 5, 6, 7, 11, 14, 15, 16, 27, 28, 31, 127])
                data = bytes(rng.choice(ctl) if rng.random() < rng.choice([0.35, 0.5, 0.9]) else rng.choice(b"abcdefgh ") for _ in range(rng.choice([40, 300, 600, 5000])))
                data = data[: len(data) // 2] + b"\r\n" + data[len(data) // 2:] + b"\r\n"
                res.count("control_heavy_ascii_contents")
            elif rng.random() < 0.08:
                # text whose first line ending lies around / beyond the 512-byte sniffing window
                data = b"L" * rng.choice([505, 509, 510, 511, 512, 513, 519, 700]) + b"\r\n" + b"second line\r\nthird\r\n" * rng.randrange(1, 5)
                res.count("long_first_line_texts")
            is_text = _is_text_block(data[:512])
            for _rep in range(5):
                res.evaluated()
                name = rng.choice(PLAIN + VARIANTS) if rng.random() < 0.8 else rng.choice(["md5-dos2unix"] * 4 + ["MD5-DOS2UNIX", "Md5-Dos2Unix"])
                lname = name.lower()
                if name != lname and lname == "md5-dos2unix":
                    res.count("dos2unix_case_variant_checks")
                entry = rng.choice(["stream", "get_hash_stream", "fobj_md5", "file_md5", "hash_file", "hash_file_memfs"])
                if name != lname and entry.startswith("hash_file"):
                    entry = "file_md5"
                kind, sizes = _read_sizes(rng, len(data))
                if lname == "md5-dos2unix":
                    sizes = [s if (s == -1 or s >= 512) else 512 for s in sizes if s != 0] or [512]
                    if -1 in sizes:
                        sizes = [2**20]  # the dos2unix stream asserts n >= 512
                    if entry == "stream":
                        entry = "get_hash_stream"
                if data:
                    res.nontrivial(_bucket(len(data)), is_text, lname, entry, kind)
                sample = {"len": len(data), "algo": name, "entry": entry, "reads": kind, "text": is_text}
                res.sample(sample)

                # reference
                if lname == "md5-dos2unix":
                    # per-read normalisation; for a single covering read: md5(dos2unix(data)) for text
                    if entry in ("get_hash_stream",):
                        ref = _ref_dos2unix_by_reads(data, sizes)
                    else:
                        ref = H("md5-dos2unix", data)
                else:
                    ref = H(lname, data)

                short = entry in ("stream", "get_hash_stream", "fobj_md5") and rng.random() < 0.35 and len(data) <= 200000
                if short:
                    res.count("short_read_streams")
                if entry in ("stream", "get_hash_stream"):
                    flaky = short and rng.random() < 0.4
                    fobj = ShortReader(data, rng, fail=0.15 if flaky else 0.0) if short else io.BytesIO(data)
                    st = HashStreamFile(fobj, name) if entry == "stream" else get_hash_stream(fobj, name)
                    peek = None
                    if rng.random() < 0.4:
                        # the digest so far is looked at while the stream is still being read (progress / logging)
                        def peek(stream, sofar, lname=lname, name=name):
                            if rng.random() < 0.3:
                                res.count("midway_digest_peeks")
                                v = stream.hash_value
                                if lname != "md5-dos2unix" and v != H(lname, bytes(sofar)):
                                    bad("stream-digest-midway", f"digest looked at after {len(sofar)} bytes of a {name} stream is not the digest of those bytes", case, **sample)
                    got = _drain(st, sizes, peek=peek, retry=flaky)
                    if flaky:
                        res.count("streams_with_transient_read_failures")
                        res.count("transient_read_failures_retried", fobj.failures)
                    if short and lname == "md5-dos2unix":
                        ref = _ref_by_chunks(data, fobj.returned, True)  # normalisation is per read actually returned
                    res.count("stream_checks")
                    if got != data:
                        bad("stream-alters-bytes", f"stream over {name} returned bytes != source", case, **sample)
                    if st.hash_value != ref:
                        bad("stream-digest", f"stream digest for {name} != reference ({kind} reads)", case, got=st.hash_value, ref=ref, **sample)
                    if st.total_read != len(data):
                        # the count is of the bytes read and handed on, also where the digest is fed a normalised form of them
                        bad("stream-count" + ("/legacy" if lname == "md5-dos2unix" else ""), f"total_read {st.total_read} != {len(data)} bytes read from a {name} stream", case, **sample)
                    if lname == "md5-dos2unix":
                        res.count("legacy_stream_counts_checked")
                elif entry == "fobj_md5":
                    cs = sizes[0] if sizes[0] > 0 else 2**20
                    if lname == "md5-dos2unix":
                        ref = _ref_dos2unix_by_reads(data, [cs])
                    fo = ShortReader(data, rng) if short else io.BytesIO(data)
                    got = fobj_md5(fo, chunk_size=cs, name=name)
                    if short and lname == "md5-dos2unix":
                        ref = _ref_by_chunks(data, fo.returned, True)
                    res.count("fobj_md5_checks")
                    if got != ref:
                        bad("fobj_md5-digest", f"fobj_md5({name}, chunk={cs}) != reference", case, got=got, ref=ref, **sample)
                    if lname != "md5-dos2unix" and rng.random() < 0.08:
                        # a handle on a real file, hashed from wherever it stands: right after a header was read from it, and once
                        # more after it has been hashed to its end (nothing is left: the digest of no bytes)
                        hp_ = os.path.join(d, f"handle{case}")
                        with open(hp_, "wb") as f_:
                            f_.write(data)
                        with open(hp_, "rb") as f_:
                            head_ = f_.read(rng.choice([0, 0, 1, 7, 512]))
                            first_ = fobj_md5(f_, name=name)
                            again_ = fobj_md5(f_, name=name)
                        os.unlink(hp_)
                        res.count("file_handles_hashed_from_their_position")
                        if first_ != H(lname, data[len(head_):]) or again_ != H(lname, b""):
                            bad("fobj_md5-digest/handle-not-at-start", f"fobj_md5({name}) of a file handle standing at byte {len(head_)} (then at the end) is not the digest of what was left to read", case, **sample)
                    if lname != "md5-dos2unix" and rng.random() < 0.01:
                        # a single read that returns a whole number (>= 2) of MiB
                        k_ = rng.choice([2, 3])
                        big_ = rng.randbytes(k_ * 2**20)
                        res.count("reads_of_whole_mebibytes")
                        if fobj_md5(io.BytesIO(big_), chunk_size=rng.choice([k_ * 2**20, 4 * 2**20]), name=name) != H(lname, big_):
                            bad("fobj_md5-digest/read-of-whole-mebibytes", f"fobj_md5({name}) of {k_} MiB delivered by one read != reference", case, **{**sample, "size": len(big_)})
                        st_ = get_hash_stream(io.BytesIO(big_), name)
                        st_.read(-1)
                        if st_.hash_value != H(lname, big_):
                            bad("stream-digest/read-of-whole-mebibytes", f"{name} stream fed {k_} MiB by one read(-1) != reference", case, **{**sample, "size": len(big_)})
                else:
                    if entry == "hash_file_memfs":
                        path = f"memory://verif-c14/{ctx.shard}-{case}"
                        memfs.pipe_file(path, data)
                        fs = memfs
                        res.count("memfs_checks")
                    else:
                        path = os.path.join(d, f"f{case}")
                        with open(path, "wb") as f:
                            f.write(data)
                        fs = lfs
                    if entry == "file_md5":
                        fkw = {}
                        if rng.random() < 0.4:
                            # the caller follows the hashing through a progress callback of its own: a fresh one, or one that has
                            # already been through other files (its counters are not at zero)
                            from fsspec.callbacks import Callback as _CB

                            cb_ = _CB()
                            if rng.random() < 0.6:
                                cb_.set_size(rng.randrange(0, 5000))
                                cb_.relative_update(rng.randrange(1, 5000))
                                res.count("file_md5_with_a_used_progress_callback")
                            fkw = {"callback": cb_}
                            if rng.random() < 0.3:
                                fkw["size"] = len(data)
                        got = file_md5(path, fs, name=name, **fkw)
                        res.count("fobj_md5_checks")
                        if got != ref:
                            bad("file_md5-digest", f"file_md5({name}) != reference", case, got=got, ref=ref, **sample)
                    else:
                        meta, hi = hash_file(path, fs, name)
                        res.count("hash_file_checks")
                        if hi.value != ref or hi.name != name:
                            bad("hash_file-digest", f"hash_file({name}) != reference", case, got=str(hi), ref=ref, **sample)
                        if meta.size != len(data):
                            bad("hash_file-size", f"meta.size {meta.size} != {len(data)}", case, **sample)
                    if fs is memfs:
                        memfs.rm_file(path)
                    else:
                        os.unlink(path)

            # hash_file on the read-only filesystem over an index (its info() already carries the entry's md5)
            if rng.random() < 0.15 and len(data) <= 200000:
                from dvc_data.fs import DataFileSystem
                from dvc_data.hashfile.hash_info import HashInfo as _HI
                from dvc_data.hashfile.meta import Meta as _M
                from dvc_data.index import DataIndex as _DI, DataIndexEntry as _DE, ObjectStorage as _OS

                from ..env import local_odb

                res.evaluated()
                res.count("hash_file_over_index_filesystem")
                codb = local_odb(os.path.join(d, "dfs-cache"))
                srcp = os.path.join(d, f"dfs-src-{case}")
                with open(srcp, "wb") as f:
                    f.write(data)
                codb.add(srcp, lfs, H("md5", data))
                os.unlink(srcp)
                ix = _DI()
                ix.storage_map.add_cache(_OS(key=(), odb=codb))
                ix[("f",)] = _DE(key=("f",), meta=_M(size=len(data)), hash_info=_HI("md5", H("md5", data)))
                dfs = DataFileSystem(index=ix)
                for nm_ in ("md5", "md5-dos2unix", "sha256"):
                    _mm, hh = hash_file("/f", dfs, nm_)
                    if hh.value != H(nm_, data) or hh.name != nm_:
                        bad("hash_file-digest/index-filesystem", f"hash_file({nm_}) over the index filesystem != reference", case, algo=nm_, len=len(data), text=is_text)
            # two hashing streams alive at the same time in one thread must not share any state
            if rng.random() < 0.3:
                res.evaluated()
                res.count("interleaved_stream_pairs")
                name2 = rng.choice(PLAIN + VARIANTS)
                other = gen.content(rng, big=0.0) + b"-other"
                s1, s2 = HashStreamFile(io.BytesIO(data), name2), HashStreamFile(io.BytesIO(other), name2)
                o1, o2 = bytearray(), bytearray()
                while True:
                    b1, b2 = s1.read(rng.choice([1, 64, 4096])), s2.read(rng.choice([1, 64, 4096]))
                    o1 += b1
                    o2 += b2
                    if not b1 and not b2:
                        break
                if rng.random() < 0.5:
                    _ = fobj_md5(io.BytesIO(b"nested " + other), name=name2)  # a third computation in between
                if s1.hash_value != H(name2.lower(), data) or s2.hash_value != H(name2.lower(), other) or bytes(o1) != data or bytes(o2) != other:
                    bad("interleaved-streams-interfere", f"two {name2} streams read alternately give wrong digests/bytes", case, algo=name2, len1=len(data), len2=len(other))
            # CRLF/LF variants of a text that fits in one read; binary untouched
            if len(data) <= 2**20:
                res.evaluated()
                lf = data
                while b"\r\n" in lf:  # the LF form has no CRLF left (lone CRs may collapse into new pairs)
                    lf = lf.replace(b"\r\n", b"\n")
                crlf = lf.replace(b"\n", b"\r\n")
                if len(crlf) <= 2**20:
                    res.count("dos2unix_variant_checks")
                    t_lf, t_crlf = _is_text_block(lf[:512]), _is_text_block(crlf[:512])
                    a = fobj_md5(io.BytesIO(lf), name="md5-dos2unix")
                    b = fobj_md5(io.BytesIO(crlf), name="md5-dos2unix")
                    if t_lf and t_crlf:
                        if a != b:
                            bad("dos2unix-crlf-lf-differ", "CRLF and LF variants of a one-read text file hash differently", case, len=len(lf))
                        if a != H("md5", lf):
                            bad("dos2unix-text-digest", "md5-dos2unix of text != md5 of its LF form", case, len=len(lf))
                    if not _is_text_block(data[:512]):
                        c = fobj_md5(io.BytesIO(data), name="md5-dos2unix")
                        if c != H("md5", data):
                            bad("dos2unix-binary-altered", "binary content hashed differently from plain md5", case, len=len(data))
                        res.count("dos2unix_binary_checks")
                    # pass-through never alters the bytes
                    st = get_hash_stream(io.BytesIO(crlf), "md5-dos2unix")
                    if _drain(st, [2**20]) != crlf:
                        bad("dos2unix-alters-bytes", "text-normalising stream altered the bytes handed on", case, len=len(crlf))

        ctx.guard(case, one)
    _ = hmod


def _ref_dos2unix_by_reads(data, sizes):
    import hashlib

    m = hashlib.md5()  # noqa: S324
    off = 0
    i = 0
    while off < len(data):
        n = sizes[i % len(sizes)]
        i += 1
        chunk = data[off:] if n == -1 else data[off : off + n]
        off += len(chunk)
        if _is_text_block(chunk[:512]):
            chunk = chunk.replace(b"\r\n", b"\n")
        m.update(chunk)
    return m.hexdigest()
