"""C01 - object stores are content-addressed: every object is named by its own digest."""

import os

from .. import env, gen
from ..monitors import MethodPatch
from ..oracle import DIR_SUFFIX, H, audit_store, file_bytes, list_store, parse_dir_bytes

RULE = (
    "case = history of 3-10 steps over 1-3 stores (classes local/base; algorithms md5, md5-dos2unix, sha256, blake3); step "
    "alphabet: stage+transfer of a generated directory or file, upload staging, direct add under hash_file's digest, "
    "store->store transfer of a random subset (shallow/expanded), index md5+save, migrate(prepare()) to another algorithm, gc with "
    "a random used set, object checkout out of a store, re-run of a migration, verifying add/transfer of content that does not match its name (wrong oid, rotten source store).  The auditor (independent re-hash of every object file, hand-assembled "
    "canonical listing, mode bits for local stores) runs after every step and after every HashFileDB.add call.  "
    "non-trivial = history touching >= 2 distinct operations; distinct = (history of operations with their inputs)"
)
ASSUMPTIONS = [
    "reference digests from hashlib/blake3; md5-dos2unix re-implemented in the oracle",
    "directories are staged under md5 / md5-dos2unix only (staging a directory under another algorithm is the legacy external-output path, not one of the property's operation sequences; DESIGN §0.3); other algorithms enter through single files, add and migrate",
    "temporary upload names (*.tmp) are counted, not judged",
]
MONITORS = "store auditor after every step and inside a post-hook on HashFileDB.add (audits the receiving store after every add call)"
REQUIRED_COUNTERS = ["filtered_trees_stored_in_another_store", "indexes_saved_again_after_being_extended", "migrations_followed_through_a_callback", "stores_opened_through_cwd_relative_path", "downloads_failing_half_way", "inode_only_swaps", "persistent_workspace_steps", "dirs_with_several_large_files", "steps", "audits_after_step", "audits_after_add", "objects_rehashed", "dir_objects_reencoded", "op/stage-dir", "op/stage-file",
                     "op/upload-stage", "op/add", "op/transfer", "op/save", "op/migrate", "op/gc", "staged_directory_ids_checked", "restaged_workspace_ids_checked", "saves_over_two_data_roots", "op/checkout", "op/verify-rotten", "migrations_rerun", "op/pws-stage", "op/pws-edit", "op/pws-stage-only", "local_mode_checks"]


def run_shard(ctx):
    from dvc_data.hashfile import load
    from dvc_data.hashfile.build import build
    from dvc_data.hashfile.checkout import checkout
    from dvc_data.hashfile.db import HashFileDB
    from dvc_data.hashfile.db.migrate import migrate, prepare
    from dvc_data.hashfile.gc import gc
    from dvc_data.hashfile.hash import hash_file
    from dvc_data.hashfile.transfer import transfer
    from dvc_data.index import build as ibuild
    from dvc_data.index import md5 as imd5
    from dvc_data.index import save as isave

    res = ctx.res
    fs = env.localfs()
    cur = {"stores": {}, "case": None, "hist": None}

    def audit(root, st, when):
        probs, objs, ntmp = audit_store(root, st["algo"], want_mode=0o444 if st["cls"] == "local" else None)
        res.count("objects_rehashed", len(objs))
        res.count("dir_objects_reencoded", sum(1 for o in objs if o.endswith(DIR_SUFFIX)))
        if st["cls"] == "local":
            res.count("local_mode_checks", len(objs))
        res.count("temp_names_seen", ntmp)
        # a directory object filed without its suffix (the generators never emit listing-shaped file contents)
        for oid, path in objs.items():
            if not oid.endswith(DIR_SUFFIX) and os.path.getsize(path) < 1_000_000:
                raw = file_bytes(path)
                if raw[:2] == b"[{" and b'"relpath"' in raw:
                    try:
                        parse_dir_bytes(raw)
                        probs.append(("dir-object-without-dir-suffix", oid, {"size": len(raw)}))
                    except ValueError:
                        pass
        for kind, oid, info in probs[:3]:
            last = cur["hist"][-1][0] if cur["hist"] else "?"
            res.violation(
                f"{kind}/{when}/{last}",
                f"store {st['name']} ({st['cls']}, {st['algo']}): object {oid} {kind} {info} after {last}",
                case=cur["case"], detail={"history": cur["hist"], "store": {k: v for k, v in st.items() if k != 'odb'}},
            )
        return probs

    def add_hook(orig):
        def wrapper(self, *a, **kw):
            out = orig(self, *a, **kw)
            st = cur["stores"].get(os.path.abspath(self.path))
            if st is not None:
                res.count("audits_after_add")
                audit(st["root"], st, "after-add")
            return out

        return wrapper

    with MethodPatch(HashFileDB, "add", add_hook):
        for case, rng in ctx.cases(ctx.plan["n"]):

            def one(case=case, rng=rng):
                d = ctx.fresh("h")
                nstores = rng.choice([1, 2, 2, 3])
                stores = []
                cur["stores"] = {}
                cur["case"] = case
                hist = cur["hist"] = []
                state = env.mk_state(d, os.path.join(d, "tmp")) if rng.random() < 0.5 else None
                for i in range(nstores):
                    cls = rng.choice(["local", "local", "base"])
                    algo = rng.choice(["md5", "md5", "md5", "md5-dos2unix", "sha256", "blake3"]) if i else rng.choice(["md5", "md5", "md5-dos2unix"])
                    root = os.path.join(d, f"store{i}")
                    # stores are sometimes opened through a legal non-canonical spelling of their path
                    spelling = rng.choice(["canonical"] * 4 + ["trailing-slash", "double-slash", "dot", "cwd-relative"])
                    opened = {"canonical": root, "trailing-slash": root + "/", "double-slash": d + "//" + f"store{i}", "dot": d + "/./" + f"store{i}",
                              "cwd-relative": f"store{i}"}[spelling]
                    if spelling != "canonical":
                        res.count("stores_opened_through_non_canonical_path")
                    if spelling == "cwd-relative":
                        # named relative to the process's current directory, which stays put for the whole history (restored by the caller)
                        os.chdir(d)
                        res.count("stores_opened_through_cwd_relative_path")
                    odb = env.odb_of_class(cls, opened, state=state if rng.random() < 0.7 else None, hash_name=algo)
                    st = {"name": f"s{i}", "cls": cls, "algo": algo, "root": root, "odb": odb}
                    stores.append(st)
                    cur["stores"][os.path.abspath(root)] = st
                pool = [gen.content(rng, big=0.02) for _ in range(4)] + [b"", b"a\r\nb\r\n", b"a\nb\n", b"a line of CRLF text\r\n" * rng.randrange(30, 400)]
                nws = [0]
                generated = {}  # workspace path -> generated {key: bytes} (filled in below, big files included)

                def new_ws(single=False):
                    nws[0] += 1
                    p = os.path.join(d, f"ws{nws[0]}")
                    if single:
                        os.makedirs(p)
                        fp = os.path.join(p, gen.name(rng, odd=0.4))
                        with open(fp, "wb") as f:
                            if rng.random() < 0.08:
                                # more than one hashing block: a binary first MiB, then CRLF text (the legacy algorithm decides block by block)
                                f.write(b"\0" + rng.randbytes(2**20 - 1) + b"text line\r\n" * rng.randrange(3, 200))
                                res.count("binary_head_text_tail_objects")
                            else:
                                f.write(rng.choice(pool) if rng.random() < 0.5 else gen.content(rng, big=0.03))
                        return fp
                    files, empties = gen.tree(rng, depth=rng.randrange(0, 4), fanout=3, pool_=pool, dup=0.5, odd=0.35, min_files=1)
                    generated[p] = files
                    if rng.random() < 0.06:
                        base = rng.choice([()] + sorted({k[:-1] for k in files}))
                        for j, c in enumerate(gen.big_files(rng)):
                            files[(*base, f"big{j}")] = c
                        res.count("dirs_with_several_large_files")
                    gen.write_tree(p, files, empties)
                    return p

                def objs_of(st):
                    o, _t, _s = list_store(st["root"])
                    return sorted(o)

                nsteps = rng.randrange(3, 11)
                ops_done = set()
                for _step in range(nsteps):
                    st = rng.choice(stores)
                    odb, algo = st["odb"], st["algo"]
                    op = rng.choice(["stage-dir", "stage-dir", "stage-file", "upload-stage", "add", "transfer", "save", "migrate", "gc", "checkout", "verify-rotten",
                                     "pws-stage-only", "pws-edit", "pws-stage", "partial-download"])
                    if op.startswith("pws") and algo not in ("md5", "md5-dos2unix"):
                        op = "stage-file"
                    if op == "stage-dir" and algo not in ("md5", "md5-dos2unix"):
                        op = "stage-file"
                    if op in ("upload-stage", "save") and algo != "md5":
                        op = "add"
                    rec = [op, st["name"]]
                    if op.startswith("pws"):
                        # one long-lived workspace per case: staged without transfer, edited (rotate: rename + recreate), staged again
                        pws = os.path.join(d, "pws")
                        if not os.path.isdir(pws):
                            gen.write_tree(pws, {("log",): b"first generation\n", ("sub", "data"): rng.choice(pool) + b"p", ("keep",): b"keep"})
                        if op == "pws-stage-only":
                            build(odb, pws, fs, algo)
                        elif op == "pws-edit" and rng.random() < 0.4:
                            # two equal-sized files change places by rename, mtimes preserved (unpacked from one archive): inode-only change
                            pa, pb = os.path.join(pws, "twin-a"), os.path.join(pws, "twin-b")
                            if not os.path.exists(pa):
                                for pp, body in ((pa, b"AAAA twin content"), (pb, b"BBBB twin content")):
                                    with open(pp, "wb") as f:
                                        f.write(body)
                                st0 = os.stat(pa)
                                os.utime(pb, ns=(st0.st_atime_ns, st0.st_mtime_ns))
                                if odb.state is not None:
                                    build(odb, pws, fs, algo, dry_run=True)  # the state gets to know them
                            os.replace(pa, pa + ".swap")
                            os.replace(pb, pa)
                            os.replace(pa + ".swap", pb)
                            res.count("inode_only_swaps")
                        elif op == "pws-edit":
                            victim = rng.choice(["log", os.path.join("sub", "data")])
                            vp = os.path.join(pws, victim)
                            if os.path.exists(vp):
                                os.replace(vp, vp + f".{_step}")  # the old content survives under another name
                            with open(vp, "wb") as f:
                                f.write(b"generation %d " % _step + gen.small_content(rng))
                        else:
                            _s, _m, obj, r = env.stage_and_transfer(odb, pws, algo, shallow=False)
                            rec.append(obj.hash_info.value)
                            if rng.random() < 0.5:
                                # straight away: a file below a sub-directory is rewritten in place (the top directory's own stat
                                # does not change) and the workspace is staged once more for the same store
                                with open(os.path.join(pws, "sub", "data"), "wb") as f:
                                    f.write(b"rewritten in place at step %d " % _step + gen.small_content(rng))
                                _s, _m, obj, r = env.stage_and_transfer(odb, pws, algo, shallow=False)
                                rec.append(obj.hash_info.value)
                                res.count("restaged_after_in_place_rewrite_below")
                            # ... and the id is that of what the workspace holds NOW (it was staged before, then edited)
                            from ..oracle import H as _H2, canonical_dir_oid as _cdo2, walk_files as _wf2

                            want2 = _cdo2({"/".join(k_): _H2(algo, v_) for k_, v_ in _wf2(pws).items()})
                            res.count("restaged_workspace_ids_checked")
                            if obj.hash_info.value != want2:
                                res.violation("restaged-directory-named-by-an-earlier-listing", f"the long-lived workspace was staged as {obj.hash_info.value}; its current contents hash to {want2}",
                                              case=cur["case"], detail={"history": hist})
                        res.count("persistent_workspace_steps")
                    elif op == "stage-dir":
                        p = new_ws()
                        _s, _m, obj, r = env.stage_and_transfer(odb, p, algo, shallow=False)
                        rec.append(obj.hash_info.value)
                        # the directory object's name is the digest of the canonical listing of what is really in the directory
                        from ..oracle import H as _H, canonical_dir_oid as _cdo

                        want_ = _cdo({"/".join(k_): _H(algo, v_) for k_, v_ in generated[p].items()})
                        res.count("staged_directory_ids_checked")
                        if obj.hash_info.value != want_:
                            res.violation("staged-directory-named-by-another-listing", f"staged {obj.hash_info.value}; the canonical listing of the directory's real names and contents hashes to {want_}",
                                          case=cur["case"], detail={"history": hist, "names": sorted("/".join(k_) for k_ in generated[p])[:8]})
                        # a part of that directory (its sub-tree filtered by a prefix - which keeps the whole directory's identifier) is
                        # handed to another store that does not hold the directory object yet: what gets filed under that name is the listing it names
                        tops_ = sorted({k_[0] for k_ in generated[p] if len(k_) > 1})
                        others_ = [s_ for s_ in stores if s_ is not st and s_["algo"] == algo]
                        if tops_ and others_ and algo == "md5" and rng.random() < 0.5:
                            from dvc_data.hashfile.db import add_update_tree as _aut

                            try:
                                part_ = obj.filter((rng.choice(tops_),))
                            except Exception:  # noqa: BLE001
                                part_ = None
                            if part_ is not None:
                                _aut(rng.choice(others_)["odb"], part_)
                                res.count("filtered_trees_stored_in_another_store")
                                rec.append("part-stored-elsewhere")
                    elif op == "stage-file":
                        p = new_ws(single=True)
                        _s, _m, obj, r = env.stage_and_transfer(odb, p, algo)
                        rec.append(obj.hash_info.value)
                    elif op == "upload-stage":
                        p = new_ws(single=rng.random() < 0.3)
                        staging, _m, obj = build(odb, p, fs, "md5", upload=True)
                        transfer(staging, odb, {obj.hash_info}, shallow=False, hardlink=True)
                        rec.append(obj.hash_info.value)
                    elif op == "add":
                        p = new_ws(single=True)
                        _m, hi = hash_file(p, fs, algo, state=odb.state if rng.random() < 0.5 else None)
                        odb.add(p, fs, hi.value, hardlink=rng.random() < 0.3)
                        rec.append(hi.value)
                    elif op == "transfer":
                        others = [s for s in stores if s is not st and s["algo"] == algo]
                        if not others:
                            rec[0] = op = "add"
                            p = new_ws(single=True)
                            _m, hi = hash_file(p, fs, algo)
                            odb.add([p], fs, [hi.value])
                        else:
                            dst = rng.choice(others)
                            have = objs_of(st)
                            sub = [o for o in have if rng.random() < 0.6]
                            shallow = rng.random() < 0.5
                            if shallow:
                                # closed request: a directory goes with its files
                                ids = {env.HI(algo, o) for o in sub}
                                for o in list(sub):
                                    if o.endswith(DIR_SUFFIX):
                                        try:
                                            t = load(odb, env.HI(algo, o))
                                            ids |= {hi for _k, _m, hi in t}
                                        except Exception:  # noqa: BLE001
                                            ids.discard(env.HI(algo, o))
                            else:
                                ids = {env.HI(algo, o) for o in sub}
                            transfer(odb, dst["odb"], ids, shallow=shallow, jobs=rng.choice([1, 4]), cache_odb=odb)
                            rec += [dst["name"], len(ids), "shallow" if shallow else "expanded"]
                    elif op == "save" and rng.random() < 0.35:
                        # an index over two data roots: the second mounted at a nested key and registered FIRST (longest prefix must still win)
                        from dvc_data.index import DataIndex as _DI, FileStorage as _FS

                        p, p2 = new_ws(), new_ws()
                        # the same relative names exist under both roots, with other bytes
                        for k_ in sorted(generated[p])[:3]:
                            fp_ = os.path.join(p2, *k_)
                            if not os.path.isdir(fp_) and all(not os.path.isfile(os.path.join(p2, *k_[:i_])) for i_ in range(1, len(k_))):
                                os.makedirs(os.path.dirname(fp_), exist_ok=True)
                                with open(fp_, "wb") as f:
                                    f.write(b"second root: " + generated[p][k_])
                        mount = ("ext-%d" % _step,)
                        both = _DI()
                        both.storage_map.add_data(_FS(mount, fs, p2))
                        both.storage_map.add_data(_FS((), fs, p))
                        for k_, e_ in ibuild(p, fs).iteritems():
                            both[k_] = e_
                        from dvc_data.index import DataIndexEntry as _DE
                        from dvc_data.hashfile.meta import Meta as _M

                        both[mount] = _DE(key=mount, meta=_M(isdir=True))
                        for k_, e_ in ibuild(p2, fs).iteritems():
                            e_.key = (*mount, *k_)
                            both[e_.key] = e_
                        isave(imd5(both, state=odb.state), odb=odb)
                        rec.append("two-data-roots")
                        res.count("saves_over_two_data_roots")
                    elif op == "save":
                        p = new_ws()
                        idx = imd5(ibuild(p, fs), state=odb.state)
                        isave(idx, odb=odb)
                        subdirs_ = sorted(k_ for k_, e_ in idx.iteritems() if e_.meta and e_.meta.isdir and k_)
                        if subdirs_ and rng.random() < 0.5:
                            # the same index handle is extended (a file appears in one of its directories) and saved a second time: the
                            # identifiers it then records for its directories are those of what the directories hold now
                            dk_ = rng.choice(subdirs_)
                            nk_ = (*dk_, "added-after-the-first-save")
                            with open(os.path.join(p, *nk_), "wb") as f:
                                f.write(gen.small_content(rng) + b"later")
                            for k_, e_ in imd5(ibuild(p, fs), state=odb.state).iteritems():
                                if k_ == nk_:
                                    idx[nk_] = e_
                            isave(idx, odb=odb)
                            res.count("indexes_saved_again_after_being_extended")
                            rec.append("saved-again")
                            from ..oracle import canonical_dir_oid as _cdo, walk_files as _wf

                            for k_, e_ in idx.iteritems():
                                if e_.meta and e_.meta.isdir and e_.hash_info and e_.hash_info.value and nk_[: len(k_)] == k_:
                                    want_ = _cdo({"/".join(fk_): H("md5", fv_) for fk_, fv_ in _wf(os.path.join(p, *k_)).items() if fv_ is not None})
                                    if e_.hash_info.value != want_:
                                        res.violation("saved-directory-id-is-not-that-of-its-contents/second-save", f"after the second save the index records {e_.hash_info.value} for "
                                                      f"{'/'.join(k_)}, whose files make it {want_}", case=case, detail={"history": hist})
                                        break
                    elif op == "migrate":
                        # (also between two stores of the same algorithm, which may share the hash state)
                        others = [s for s in stores if s is not st and not (algo == "md5" and s["algo"] == "md5-dos2unix")]
                        if not others:
                            rec[0] = op = "gc"
                            gc(odb, [env.HI(algo, o) for o in objs_of(st) if rng.random() < 0.7], shallow=rng.random() < 0.5)
                        else:
                            dst = rng.choice(others)
                            mkw = {}
                            if rng.random() < 0.4:
                                # the caller follows the re-hashing through a progress callback of its own (one that hands out real children)
                                from fsspec.callbacks import Callback as _CB

                                class Following(_CB):
                                    def branched(self, path_1, path_2, **kwargs):
                                        return Following()

                                mkw = {"callback": Following()}
                                res.count("migrations_followed_through_a_callback")
                            n = migrate(prepare(odb, dst["odb"], **mkw))
                            rec += [dst["name"], dst["algo"], n]
                            if rng.random() < 0.5:
                                # the migration is run again in the same process (idempotent re-run, possibly after the source grew)
                                if rng.random() < 0.5 and algo in ("md5", "md5-dos2unix"):
                                    env.stage_and_transfer(odb, new_ws(single=rng.random() < 0.5), algo, shallow=False)
                                n2 = migrate(prepare(odb, dst["odb"]))
                                rec += ["rerun", n2]
                                res.count("migrations_rerun")
                    elif op == "partial-download":
                        # objects are fetched from a store on a non-local filesystem whose download of one of them writes part of the
                        # file and then fails (reported by the transfer): nothing may stay filed under that object's name; a second,
                        # undisturbed transfer delivers it
                        from dvc_objects.fs.memory import MemoryFileSystem

                        class PartialReadFS(MemoryFileSystem):
                            bad = ()

                            def get_file(self, rpath, lpath, **kw):
                                if any(rpath.endswith(b) for b in self.bad):
                                    with open(lpath, "wb") as f:
                                        f.write(self.cat_file(rpath)[: rng.randrange(0, 4)] + b"...")
                                    raise OSError(5, "connection lost half way through the download")
                                return super().get_file(rpath, lpath, **kw)

                        mfs = PartialReadFS(global_store=False)
                        far = HashFileDB(mfs, f"/far-{_step}", hash_name=algo)
                        datas = [gen.small_content(rng) + b"-far-%d" % i for i in range(rng.randrange(2, 5))]
                        oids_ = [H(algo, x) for x in datas]
                        for o_, x in zip(oids_, datas):
                            far.add_bytes(o_, x)
                        nbad = rng.randrange(1, len(oids_))
                        PartialReadFS.bad = tuple(o_[2:] for o_ in rng.sample(oids_, nbad))
                        r = transfer(far, odb, {env.HI(algo, o_) for o_ in oids_}, jobs=rng.choice([1, 4]))
                        res.count("downloads_failing_half_way", len(r.failed))
                        rec += [len(oids_), "failed", len(r.failed)]
                        audit(st["root"], st, "after-failed-download")
                        PartialReadFS.bad = ()
                        r2 = transfer(far, odb, {env.HI(algo, o_) for o_ in oids_}, jobs=rng.choice([1, 4]))
                        lost = [o_ for o_ in oids_ if not os.path.isfile(os.path.join(st["root"], o_[:2], o_[2:]))]
                        if r2.failed or lost:
                            res.violation("object-not-delivered-after-failed-download", f"store {st['name']}: {len(r2.failed)} failed, {lost[:2]} absent after an undisturbed second transfer",
                                          case=case, detail={"history": hist})
                    elif op == "gc":
                        used = [env.HI(algo, o) for o in objs_of(st) if rng.random() < 0.7]
                        shallow = rng.random() < 0.5
                        try:
                            n = gc(odb, used, shallow=shallow)
                        except FileNotFoundError:
                            n = "refused"
                        rec += [len(used), "shallow" if shallow else "expanded", n]
                    elif op == "verify-rotten":
                        # a verifying add / transfer is offered content that does not match the name it comes under (a rotten
                        # source store outside the audited set, or a wrong oid): whatever it does, the receiving store stays sound
                        p = new_ws(single=True)
                        _m, hi = hash_file(p, fs, algo)
                        wrong = rng.choice(["oid", "source-object"])
                        if wrong == "oid":
                            other = new_ws(single=True)
                            if file_bytes(other) == file_bytes(p):
                                with open(other, "ab") as f:
                                    f.write(b"x")
                            errs = []
                            odb.add(other, fs, hi.value, verify=True, on_error=lambda o, e: errs.append(o))
                            rec += ["wrong-oid", len(errs)]
                        else:
                            rot = os.path.join(d, f"rotten{_step}")
                            rodb = env.odb_of_class("base", rot, hash_name=algo)
                            rodb.add(p, fs, hi.value)
                            rp = rodb.oid_to_path(hi.value)
                            os.chmod(rp, 0o644)
                            with open(rp, "ab") as f:
                                f.write(b"bitrot")
                            r = transfer(rodb, odb, {hi}, verify=True, shallow=rng.random() < 0.5)
                            rec += ["rotten-source", len(r.failed)]
                    elif op == "checkout":
                        have = objs_of(st)
                        if have:
                            o = rng.choice(have)
                            out = os.path.join(d, f"out{_step}")
                            try:
                                checkout(out, fs, load(odb, env.HI("md5" if algo == "md5-dos2unix" and False else algo, o)), odb, force=True)
                            except Exception as e:  # noqa: BLE001  (e.g. a directory whose files were gc'ed: not this property)
                                rec.append(type(e).__name__)
                    hist.append(rec)
                    ops_done.add(rec[0])
                    res.count("steps")
                    res.count(f"op/{rec[0]}")
                    for s in stores:
                        res.count("audits_after_step")
                        audit(s["root"], s, "after-step")
                res.evaluated()
                if len(ops_done) >= 2:
                    res.nontrivial(hist, [(s["cls"], s["algo"]) for s in stores])
                res.sample({"stores": [(s["name"], s["cls"], s["algo"]) for s in stores], "history": hist})
                if state is not None:
                    state.close()
                env.reset_staging()
                ctx.drop(d)

            def one_in_place(one=one):
                try:
                    one()
                finally:
                    os.chdir("/")

            ctx.guard(case, one_in_place)
