"""C09 - index checkout converges to the target from any workspace state."""

import os
import stat

from .. import env, gen, indexlab
from ..monitors import Recorder
from ..oracle import H, walk_dirs, walk_files

RULE = (
    "case = (prior workspace tree, target tree derived from it by adds / edits / deletions / nested-directory removal / "
    "file<->directory replacements at depth <= 4 / exec-bit flips, or an unrelated tree), target index given as explicit file "
    "entries (with explicit directory entries, incl. empty ones) or as one unloaded directory object at the root or at a nested "
    "key, link type in {default, copy, hardlink, symlink}, delete on/off, update_meta on/off, state on/off, some cache objects "
    "removed (unavailable sources).  Histories on ONE target index object: checkout, then a directory entry is added to it (or its missing directory object is fetched), checkout again.  The workspace index is md5(build(ws)).  non-trivial = prior != target; distinct = hash of "
    "(prior, target, configuration)"
)
ASSUMPTIONS = [
    "well-formed targets: every directory of the target has an explicit entry (as every index produced by dvc-data's own builders and loaders has)",
    "the second compare is made against a freshly built target index (apply(update_meta=True) mutates the one it was given)",
    "reads follow symlinks; link type itself is C10's subject",
    "with delete=False a directory->file replacement over a non-empty directory cannot converge and must surface through onerror",
]
MONITORS = "independent walk of the workspace (bytes, directories, exec bits) after apply; second compare's action lists; onerror recorder; audit-hook log of removals"
REQUIRED_COUNTERS = ["there_and_back_histories", "priors_with_more_than_a_thousand_stale_files", "targets_with_prefix_named_sibling_directories", "targets_with_entries_without_hash", "link_type_lists_with_an_unavailable_first_type", "implicit_parent_targets", 
    "same_index_histories_through_sqlite", "targets_handed_as_view", "root_key_file_targets", "priors_with_symlink_to_directory", "priors_with_dangling_symlink_at_a_target_file", "same_index_histories", "two_cache_targets", "implicit_parent_targets", "unavailable_directory_object_cases", "applies", "kind_swap_cases", "nested_dir_deletions", "lazy_targets", "explicit_targets", "delete_off_cases",
    "unavailable_source_cases", "second_compares", "exec_entries_checked", "link/hardlink", "link/symlink", "link/copy",
]


def run_shard(ctx):
    from dvc_data.hashfile.meta import Meta
    from dvc_data.index import DataIndexEntry
    from dvc_data.index.checkout import apply, compare

    res = ctx.res
    fs = env.localfs()

    for case, rng in ctx.cases(ctx.plan["n"]):

        def one(case=case, rng=rng):
            d = ctx.fresh("k")
            ws = os.path.join(d, "ws")
            pool = [gen.small_content(rng) for _ in range(4)] + [b""]
            P, Pe = gen.tree(rng, depth=rng.randrange(0, 4), fanout=3, pool_=pool, dup=0.5, odd=0.25, min_files=1)
            if rng.random() < 0.12:
                T, Te = gen.tree(rng, depth=2, fanout=3, pool_=pool, dup=0.5, odd=0.25, min_files=1)
                ops = [("unrelated",)]
            elif rng.random() < 0.08:
                T, Te, ops = dict(P), set(Pe), [("identical",)]
            else:
                T, Te, ops = gen.mutate_tree(rng, P, Pe, pool)
            swapped = rng.random() < 0.3
            if swapped:
                P, Pe, T, Te = T, Te, P, Pe  # the reverse direction reaches dir->file where the generator made file->dir
            # both trees live below one tracked directory (as a dvc output does): the workspace index
            # built from the workspace root then has an entry for it, like the target
            top = gen.name(rng, odd=0.2)
            P = {(top, *k): v for k, v in P.items()}
            T = {(top, *k): v for k, v in T.items()}
            Pe = {(top, *k) for k in Pe}
            Te = {(top, *k) for k in Te}
            if rng.random() < 0.15:
                # sibling directories one of whose names merely continues the other's ("logs" / "logs.old"), the shorter one empty
                nm_ = rng.choice(["logs", "data", "img", "a"])
                sib_ = nm_ + rng.choice([".old", "2", "-raw", "_"])
                if not any(k[:2] in ((top, nm_), (top, sib_)) for k in list(T) + list(Te)):
                    Te.add((top, nm_))
                    T[(top, sib_, "f")] = gen.small_content(rng)
                    res.count("targets_with_prefix_named_sibling_directories")
            lazy = rng.random() < 0.4
            delete = rng.random() < 0.8
            if case % 200 == 7:
                # more than a thousand stale files to be deleted in one go (and not a round number of them)
                delete = True
                for i_ in range(rng.choice([1001, 1100, 2350])):
                    P[(top, "stale-files", f"s{i_:04d}")] = b"stale"
                res.count("priors_with_more_than_a_thousand_stale_files")
            link = rng.choice(["default", "copy", "copy", "hardlink", "symlink"])
            # the caller may hand over a list of link types to try in turn (the first one may not be available: there is no reflink
            # on the filesystem these workspaces live on)
            links_arg = None if link == "default" else [link]
            if link in ("copy", "hardlink") and rng.random() < 0.3:
                links_arg = ["reflink", link] if link == "copy" else rng.choice([["reflink", "hardlink", "copy"], ["reflink", "hardlink"]])
                res.count("link_type_lists_with_an_unavailable_first_type")
            update_meta = rng.random() < 0.5
            use_state = rng.random() < 0.3
            texec = {k for k in T if rng.random() < 0.15}
            pexec = {k for k in P if rng.random() < 0.15}
            for k in list(texec):
                # exec bit lives on the inode: with hard/sym links every path sharing that content shares it
                if link in ("hardlink", "symlink"):
                    texec |= {k2 for k2 in T if T[k2] == T[k]}
            if lazy:
                Te = set()
                texec = set()  # directory objects do not carry exec bits
            cache = env.local_odb(os.path.join(d, "cache"), **({"type": [link]} if link != "default" else {}))
            indexlab.save_tree_to_cache(ctx, cache, T, d, execs=())
            state = env.mk_state(ws, os.path.join(d, "tmp")) if use_state else None

            tdirs = sorted(indexlab.dirs_of(T))
            lazy_at = (top,) if rng.random() < 0.6 else rng.choice(tdirs)

            # targets whose intermediate directories have no entry of their own (explicit file entries only), with every link
            # type (only a copy creates the directories above its destination by itself); convergence of files and bytes is
            # all that is asserted there
            implicit_parents = (not lazy) and rng.random() < 0.3
            if implicit_parents:
                Te = set()
                res.count("implicit_parent_targets")
                res.count(f"implicit_parent_targets/{link}")

            # two caches: one for the whole tree, one for a sub-directory (longest prefix wins, whatever the registration order)
            sub_cache = None
            sub_prefix = None
            if not lazy and tdirs and rng.random() < 0.25:
                from dvc_data.index import ObjectStorage as _OS

                sub_prefix = rng.choice(tdirs)
                sub_cache = env.local_odb(os.path.join(d, "cache-sub"), **({"type": [link]} if link != "default" else {}))
                indexlab.save_tree_to_cache(ctx, sub_cache, T, d, execs=(), name="src-sub")
                below = {H("md5", v) for k, v in T.items() if k[: len(sub_prefix)] == sub_prefix}
                outside = {H("md5", v) for k, v in T.items() if k[: len(sub_prefix)] != sub_prefix}
                from ..oracle import list_store as _ls

                for root_, keep in ((cache.path, outside), (sub_cache.path, below)):
                    for o_, p_ in _ls(root_)[0].items():
                        if not o_.endswith(".dir") and o_ not in keep:
                            os.chmod(p_, 0o644)
                            os.unlink(p_)
                child_first = rng.random() < 0.5
                res.count("two_cache_targets")

            def with_storages(idx):
                if sub_cache is None:
                    return idx
                from dvc_data.index import ObjectStorage as _OS2
                from dvc_data.index.index import StorageMapping as _SM

                idx.storage_map = _SM()
                order = [(sub_prefix, sub_cache), ((), cache)] if child_first else [((), cache), (sub_prefix, sub_cache)]
                for pre_, odb_ in order:
                    idx.storage_map.add_cache(_OS2(key=pre_, odb=odb_))
                return idx

            def target():
                if implicit_parents:
                    idx = indexlab.explicit_index(T, (), texec, cache_odb=cache)
                    for dk in list(indexlab.dirs_of(T)):
                        if len(dk) > 1:
                            del idx[dk]
                    return with_storages(idx)
                if lazy:
                    indexlab.put_dir_object(cache, T, lazy_at)
                    rest = {k: v for k, v in T.items() if k[: len(lazy_at)] != lazy_at}
                    return indexlab.lazy_index(T, lazy_at, cache_odb=cache, extra_files=rest)
                idx = indexlab.explicit_index(T, Te, texec, cache_odb=cache)
                for k_ in nohash_box[0]:
                    idx[k_] = DataIndexEntry(key=k_, meta=Meta(size=len(T[k_])), hash_info=None)
                return with_storages(idx)

            nohash_box = [set()]
            # unavailable sources
            unavailable = set()
            if rng.random() < 0.15 and sub_cache is None:
                for k, v in T.items():
                    if rng.random() < 0.3 and (P.get(k) != v):
                        o = H("md5", v)
                        p = cache.oid_to_path(o)
                        if os.path.exists(p):
                            os.chmod(p, 0o644)
                            os.unlink(p)
                        unavailable.add(o)
                if unavailable:
                    res.count("unavailable_source_cases")
            # target file entries that name no source at all (metadata, but no hash): to be reported, the rest is created
            nohash = set()
            if not unavailable and not lazy and not implicit_parents and sub_cache is None and rng.random() < 0.1:
                nohash = {k for k in T if P.get(k) != T[k] and k not in texec and rng.random() < 0.3}
                if nohash:
                    unavailable = {H("md5", T[k]) for k in nohash}
                    res.count("targets_with_entries_without_hash")
                    nohash_box[0] = nohash
            # the lazily loaded directory's own object is missing from the cache: must be reported, whatever the workspace holds
            dir_unavailable = False
            if lazy and rng.random() < 0.12:
                dir_unavailable = True
                res.count("unavailable_directory_object_cases")
            gen.write_tree(ws, P, Pe)
            for k in pexec:
                os.chmod(os.path.join(ws, *k), 0o755)
            # the prior workspace may hold a dangling symbolic link exactly where the target wants a file
            if rng.random() < 0.1:
                cand = [k for k in sorted(T) if os.path.isdir(os.path.join(ws, *k[:-1])) and not os.path.isdir(os.path.join(ws, *k))]
                if cand:
                    k = rng.choice(cand)
                    pth = os.path.join(ws, *k)
                    if os.path.lexists(pth):
                        os.unlink(pth)
                    os.symlink(os.path.join(d, "no-such-file-anywhere"), pth)
                    res.count("priors_with_dangling_symlink_at_a_target_file")
            # the prior workspace may hold a symbolic link to a directory elsewhere (not part of the target)
            dirlink = None
            if delete and rng.random() < 0.06 and os.path.isdir(os.path.join(ws, top)) and (top, "lnk-to-dir") not in T and (top, "lnk-to-dir") not in indexlab.dirs_of(T, Te):
                outside = os.path.join(d, "elsewhere-dir")
                os.makedirs(outside, exist_ok=True)
                with open(os.path.join(outside, "precious"), "wb") as f:
                    f.write(b"not part of the workspace")
                dirlink = os.path.join(ws, top, "lnk-to-dir")
                os.symlink(outside, dirlink)
                res.count("priors_with_symlink_to_directory")

            cfg = {"two_caches": ("/".join(sub_prefix), "child-first" if child_first else "parent-first") if sub_cache is not None else None, "implicit_parents": implicit_parents, "lazy": lazy, "lazy_at": "/".join(lazy_at) if lazy else None, "delete": delete, "link": link, "links": links_arg, "update_meta": update_meta, "state": use_state, "ops": ops[:8],
                   "swapped": swapped, "prior": sorted("/".join(k) for k in P), "target": sorted("/".join(k) for k in T),
                   "prior_empty_dirs": sorted("/".join(k) for k in Pe), "target_empty_dirs": sorted("/".join(k) for k in Te),
                   "unavailable": len(unavailable)}
            res.evaluated()
            res.count("applies")
            res.count("lazy_targets" if lazy else "explicit_targets")
            res.count(f"link/{link}")
            pd, td = indexlab.dirs_of(P, Pe), indexlab.dirs_of(T, Te)
            kind_swap = bool((set(P) & td) or (set(T) & pd))
            if kind_swap:
                res.count("kind_swap_cases")
            if any(len(dk) >= 1 and any(d2[: len(dk)] == dk and d2 != dk for d2 in pd) for dk in pd - td):
                res.count("nested_dir_deletions")
            if not delete:
                res.count("delete_off_cases")
            if P != T or Pe != Te:
                res.nontrivial(sorted(P.items()), sorted(T.items()), sorted(Pe), sorted(Te), lazy, delete, link, sorted(texec))
            res.sample(cfg)

            errors = []

            def onerror(src, dst, exc):
                errors.append((dst, type(exc).__name__ if exc is not None else None))

            old = indexlab.workspace_index(ws)
            new = target()
            as_view = (not implicit_parents) and rng.random() < 0.25
            if as_view:
                # the target is handed over as a filtered view that lets everything through (as dvc does)
                from dvc_data.index import view as _view

                new = _view(new, lambda k_: True)
                res.count("targets_handed_as_view")
                cfg["as_view"] = True
            if dir_unavailable:
                dp = cache.oid_to_path(indexlab.dir_oid(T, lazy_at)[0])
                os.chmod(dp, 0o644)
                os.unlink(dp)
                errors_d = []
                diff = compare(old, new, delete=delete)
                try:
                    apply(diff, ws, fs, update_meta=False, storage="cache", onerror=lambda s_, dst, e: errors_d.append(dst), state=state,
                          links=None if links_arg is None else list(links_arg))
                except Exception:  # noqa: BLE001  (loud is fine)
                    errors_d.append("raised")
                want = os.path.join(ws, *lazy_at)
                if not any(e == "raised" or e == want or (e and (e.startswith(want + os.sep) or want.startswith(e + os.sep))) for e in errors_d):
                    prior_has_dir = lazy_at in indexlab.dirs_of(P, Pe)
                    res.violation("unavailable-directory-not-reported" + ("/workspace-already-has-it" if prior_has_dir else ""),
                                  f"directory {'/'.join(lazy_at)} cannot be loaded (its object is not in the cache) and nothing was reported to onerror",
                                  case=case, detail=cfg)
                if state is not None:
                    state.close()
                env.reset_staging()
                ctx.drop(d)
                return
            apply_exc = None
            with Recorder([ws]) as rec:
                diff = compare(old, new, delete=delete)
                try:
                    apply(diff, ws, fs, update_meta=update_meta, storage="cache", onerror=onerror, state=state,
                          links=None if links_arg is None else list(links_arg), jobs=rng.choice([None, 1]))
                except Exception as e:  # noqa: BLE001
                    apply_exc = e
            got = walk_files(ws)
            gdirs = walk_dirs(ws)
            err_paths = {e[0] for e in errors}

            def reported(k):
                p = os.path.join(ws, *k)
                return any(e == p or e.startswith(p + os.sep) or p.startswith(e + os.sep) for e in err_paths if e)

            blocked = set()  # target paths that cannot be created because delete=False kept something in the way
            if not delete:
                for k in T:
                    for i in range(1, len(k) + 1):
                        pre = k[:i]
                        if (pre in P and i < len(k)) or (i == len(k) and pre in pd and (any(f[: len(pre)] == pre for f in P)
                                                                                       or any(e[: len(pre)] == pre and e != pre for e in Pe))):
                            blocked.add(k)
            if apply_exc is not None:
                # an exception after the error callback has been told is loud, not silent: tolerated only
                # when some entry really could not be created
                if not (unavailable or blocked):
                    raise apply_exc
                res.count("apply_raised_with_uncreatable_entries")
                if nohash and not blocked and not errors:
                    # ... but an entry that names no source at all is to be reported through the callback, not by giving up on the
                    # whole target before anything has been created
                    res.violation("entry-without-source-not-reported-through-the-callback", f"apply raised {type(apply_exc).__name__} without having told the error callback "
                                  f"about {sorted('/'.join(k_) for k_ in nohash)[:2]}", case=case, detail=cfg)
            for k, v in T.items():
                o = H("md5", v)
                g = got.get(k)
                if g == v:
                    continue
                if k in blocked:
                    res.count("blocked_by_kept_path_entries")  # the statement does not say how these surface
                    continue
                if o in unavailable:
                    if not reported(k) and not (P.get(k) == v) and apply_exc is None:
                        p = os.path.join(ws, *k)
                        dangling = os.path.islink(p) and not os.path.exists(p)
                        res.violation(
                            "unavailable-source-not-reported" + ("/dangling-symlink-created" if dangling else f"/{link}"),
                            f"{'/'.join(k)}: source object is not in the cache, nothing was reported to onerror"
                            + (" (a dangling symlink was created)" if dangling else ""),
                            case=case, detail={**cfg, "errors": errors[:5]},
                        )
                    continue
                if apply_exc is not None:
                    continue  # apply stopped with an exception (after reporting): nothing is claimed about the rest
                key = "target-file-missing" if g is None and k not in got else "target-file-wrong-bytes"
                if k in pd:
                    key += "/was-directory"
                elif any(k[:i] in P for i in range(1, len(k))):
                    key += "/parent-was-file"
                res.violation(key, f"after apply {'/'.join(k)} is {'absent' if k not in got else 'different'}", case=case,
                              detail={**cfg, "errors": errors[:5]})
            if not unavailable and not blocked and errors:
                res.violation("spurious-error-callback", f"onerror called although every source is available: {errors[:2]}", case=case, detail=cfg)
            if dirlink is not None and apply_exc is None:
                if not os.path.isfile(os.path.join(d, "elsewhere-dir", "precious")):
                    res.violation("data-outside-the-workspace-removed/through-symlinked-directory", "the target of a symlinked directory in the prior workspace was emptied", case=case, detail=cfg)
                elif os.path.lexists(dirlink) and not unavailable:
                    res.violation("extra-path-left/symlink-to-directory", "a symbolic link to a directory, not in the target, is still in the workspace after apply(delete=True)", case=case, detail=cfg)
            if delete:
                extra = sorted(k for k in got if k not in T)
                if extra and not unavailable:
                    res.violation("extra-file-left", f"{'/'.join(extra[0])} is not in the target but still in the workspace", case=case, detail=cfg)
            else:
                # nothing outside the target is removed: prior files whose path is not claimed by the target stay intact
                for k, v in P.items():
                    claimed = k in T or k in td or any(k[:i] in T for i in range(1, len(k)))
                    if not claimed and got.get(k) != v:
                        res.violation("delete-off-removed-path-outside-target", f"{'/'.join(k)} was removed or changed with delete=False",
                                      case=case, detail={**cfg, "removals": [e for e in rec.events if e[0] in ("remove", "rmtree", "rmdir")][:5]})
            for dk in td if not implicit_parents else ():
                if dk not in gdirs and not unavailable and not any(b[: len(dk)] == dk for b in blocked):
                    if not any(reported(f) for f in T if f[: len(dk)] == dk) :
                        res.violation("target-directory-missing", f"directory {'/'.join(dk)} of the target was not created", case=case, detail=cfg)
            for k in texec if apply_exc is None else ():
                res.count("exec_entries_checked")
                p = os.path.join(ws, *k)
                if k in got and got[k] == T[k] and not (os.stat(p).st_mode & stat.S_IXUSR):
                    res.violation("exec-entry-not-executable", f"{'/'.join(k)} should be executable", case=case, detail=cfg)

            # second compare against a freshly built target
            if delete and not unavailable and apply_exc is None and not implicit_parents:
                res.count("second_compares")
                old2 = indexlab.workspace_index(ws)
                new2 = target()
                d2 = compare(old2, new2, delete=True)
                left = {n: [("/".join(e.key)) for e in getattr(d2, n)][:4] for n in ("files_delete", "dirs_delete", "files_create", "dirs_create") if getattr(d2, n)}
                if left:
                    key = "second-compare-not-empty/" + "+".join(sorted(left))
                    res.violation(key, f"second compare still wants {left}", case=case, detail=cfg)
            if state is not None:
                state.close()
            env.reset_staging()
            ctx.drop(d)

        def history(case=case, rng=rng):
            """ONE target index object used for two checkouts: a directory entry is added to it after the first checkout, or its
            directory object was missing at first and has been fetched since"""
            d = ctx.fresh("h")
            ws = os.path.join(d, "ws")
            os.makedirs(ws)
            pool = [gen.small_content(rng) for _ in range(4)] + [b""]
            top1 = gen.name(rng, odd=0.2)
            top2 = top1 + "-second"
            T1 = {(top1, *k): v for k, v in gen.tree(rng, depth=rng.randrange(0, 3), fanout=3, pool_=pool, dup=0.5, odd=0.25, min_files=1, empty_dirs=False)[0].items()}
            T2 = {(top2, *k): v for k, v in gen.tree(rng, depth=rng.randrange(0, 3), fanout=3, pool_=pool, dup=0.5, odd=0.25, min_files=1, empty_dirs=False)[0].items()}
            T2[(top2, "only-in-second")] = b"second " + gen.small_content(rng)  # the two directories never have the same listing (= the same object)
            link = rng.choice(["copy", "copy", "hardlink", "symlink"])
            um = rng.random() < 0.8
            variant = rng.choice(["entry-added-later", "object-fetched-later"])
            cache = env.local_odb(os.path.join(d, "cache"), type=[link])
            indexlab.save_tree_to_cache(ctx, cache, {**T1, **T2}, d)
            # (index save stores a directory object per directory: the later one is taken away again until it is "fetched")
            indexlab.put_dir_object(cache, T1, (top1,))
            o2 = indexlab.dir_oid(T2, (top2,))[0]
            p2 = cache.oid_to_path(o2)
            if os.path.exists(p2):
                os.chmod(p2, 0o644)
                os.unlink(p2)
            sqlite_idx = rng.random() < 0.3
            base_idx = None
            if sqlite_idx:
                # the target index lives in SQLite and is closed and reopened between the two checkouts
                from dvc_data.index import DataIndex as _DI

                base_idx = _DI.open(os.path.join(d, "target.db"))
                res.count("same_index_histories_through_sqlite")
            idx = indexlab.lazy_index(T1, (top1,), cache_odb=cache, index=base_idx)
            if variant == "object-fetched-later":
                indexlab.lazy_index(T2, (top2,), index=idx)
            if sqlite_idx:
                idx.commit()
            cfg = {"history": variant, "link": link, "update_meta": um, "first": sorted("/".join(k) for k in T1), "second": sorted("/".join(k) for k in T2)}
            res.evaluated()
            res.count("applies")
            res.count("same_index_histories")
            res.nontrivial("history", variant, sorted(T1.items()), sorted(T2.items()), link, um)
            res.sample(cfg)
            errs1 = []
            try:
                apply(compare(indexlab.workspace_index(ws), idx, delete=True), ws, fs, update_meta=um, storage="cache",
                      onerror=lambda s_, dst, e: errs1.append(dst), links=[link])
            except Exception:  # noqa: BLE001  (loud: the second directory cannot be loaded yet)
                if variant != "object-fetched-later":
                    raise
                errs1.append("raised")
            got1 = walk_files(ws)
            if variant == "entry-added-later" and (got1 != T1 or errs1):
                res.violation("target-file-missing/first-checkout-of-history", f"first checkout: {len(got1)} of {len(T1)} files, errors {errs1[:2]}", case=case, detail=cfg)
                ctx.drop(d)
                return
            if variant == "object-fetched-later" and not errs1:
                res.violation("unavailable-directory-not-reported", f"directory {top2} cannot be loaded and nothing was reported", case=case, detail=cfg)
            # the second directory becomes available / known
            indexlab.put_dir_object(cache, T2, (top2,))
            if sqlite_idx:
                from dvc_data.index import DataIndex as _DI2, ObjectStorage as _OS3

                idx.commit()
                idx.close()
                idx = _DI2.open(os.path.join(d, "target.db"))
                idx.storage_map.add_cache(_OS3(key=(), odb=cache))
            if variant == "entry-added-later":
                indexlab.lazy_index(T2, (top2,), index=idx)
                if sqlite_idx:
                    idx.commit()
            errs2 = []
            exc2 = None
            try:
                apply(compare(indexlab.workspace_index(ws), idx, delete=True), ws, fs, update_meta=um, storage="cache",
                      onerror=lambda s_, dst, e: errs2.append((dst, type(e).__name__)), links=[link])
            except Exception as e:  # noqa: BLE001
                exc2 = e
            want = {**T1, **T2}
            got2 = walk_files(ws)
            if exc2 is not None:
                raise exc2
            if got2 != want:
                missing = sorted(k for k in want if k not in got2)
                kind = "target-file-missing" if missing else "target-file-wrong-bytes"
                res.violation(f"{kind}/second-checkout-with-the-same-index/{variant}",
                              f"after the second checkout through the same index object {len(missing)} target files are missing (errors reported: {errs2[:2]})",
                              case=case, detail=cfg)
            elif errs2:
                res.violation("spurious-error-callback/second-checkout-with-the-same-index", f"{errs2[:2]}", case=case, detail=cfg)
            else:
                res.count("second_compares")
                d3 = compare(indexlab.workspace_index(ws), idx, delete=True)
                left = {n: len(getattr(d3, n)) for n in ("files_delete", "dirs_delete", "files_create", "dirs_create") if getattr(d3, n)}
                if left:
                    res.violation("second-compare-not-empty/" + "+".join(sorted(left)) + "/same-index-history", f"third compare still wants {left}", case=case, detail=cfg)
            env.reset_staging()
            ctx.drop(d)

        def root_file(case=case, rng=rng):
            """the target is a single file whose entry sits at the index's root key; the checkout path currently is a directory, a file or nothing"""
            from dvc_data.hashfile.hash_info import HashInfo
            from dvc_data.hashfile.meta import Meta
            from dvc_data.index import DataIndex, DataIndexEntry, ObjectStorage

            d = ctx.fresh("rf")
            link = rng.choice(["copy", "copy", "hardlink", "symlink"])
            cache = env.local_odb(os.path.join(d, "cache"), type=[link])
            data = gen.small_content(rng) + b"root-file"
            indexlab.save_tree_to_cache(ctx, cache, {("f",): data}, d)
            ws = os.path.join(d, "ws", "target")
            os.makedirs(os.path.dirname(ws))
            prior = rng.choice(["directory", "directory", "nested-directory", "file", "nothing", "same-file"])
            if prior == "directory":
                gen.write_tree(ws, {("a",): b"x", ("b",): b"y"})
            elif prior == "nested-directory":
                gen.write_tree(ws, {("a",): b"x", ("sub", "deep", "c"): b"z"}, {("empty",)})
            elif prior == "file":
                with open(ws, "wb") as f:
                    f.write(b"other content")
            elif prior == "same-file":
                with open(ws, "wb") as f:
                    f.write(data)
            idx = DataIndex()
            idx.storage_map.add_cache(ObjectStorage(key=(), odb=cache))
            idx[()] = DataIndexEntry(key=(), meta=Meta(size=len(data)), hash_info=HashInfo("md5", H("md5", data)))
            # the target has an entry at the root key, so the workspace side describes the path itself by an entry at () as well
            from dvc_data.index import FileStorage
            from dvc_data.index.build import build_entries, build_entry

            old = DataIndex()
            old.storage_map.add_data(FileStorage((), fs, ws))
            if os.path.lexists(ws):
                root_e = build_entry(ws, fs, compute_hash=True)
                root_e.key = ()
                old.add(root_e)
                if os.path.isdir(ws):
                    for e_ in build_entries(ws, fs, compute_hash=True):
                        old.add(e_)
            cfg = {"root_key_file_target": True, "prior": prior, "link": link}
            res.evaluated()
            res.count("applies")
            res.count("root_key_file_targets")
            res.nontrivial("root-file", prior, link, data)
            res.sample(cfg)
            errs = []
            apply(compare(old, idx, delete=True), ws, fs, update_meta=rng.random() < 0.5, storage="cache", onerror=lambda s_, dst, e: errs.append((dst, type(e).__name__)), links=[link])
            ok_ = os.path.isfile(ws) and open(ws, "rb").read() == data
            if not ok_ and not errs:
                res.violation(f"target-file-missing/root-key-file-over-{prior}", f"the single-file target was not created over a prior {prior} and nothing was reported", case=case, detail=cfg)
            elif not ok_:
                res.violation(f"target-file-missing/root-key-file-over-{prior}/reported", f"the single-file target was not created over a prior {prior}: {errs[:2]}", case=case, detail=cfg)
            ctx.drop(d)

        def there_and_back(case=case, rng=rng):
            """the same two index handles in both roles: A is checked out, then B over it (A handed over as the old side), then A again"""
            d = ctx.fresh("ab")
            ws = os.path.join(d, "ws")
            os.makedirs(ws)
            link = rng.choice(["copy", "copy", "hardlink", "symlink"])
            cache = env.local_odb(os.path.join(d, "cache"), type=[link])
            fa, _ea = gen.tree(rng, depth=rng.randrange(1, 3), fanout=3, odd=0.2, dup=0.3, min_files=2, empty_dirs=False)
            fb, _eb, _ops = gen.mutate_tree(rng, fa, (), None, kind_swaps=True)
            if not fb:
                fb = {("only",): b"b"}
            indexlab.save_tree_to_cache(ctx, cache, fa, d, name="a-src")
            indexlab.save_tree_to_cache(ctx, cache, fb, d, name="b-src")
            # (with copies every path has an inode of its own, so executable entries can be told apart)
            xa = {k for k in fa if rng.random() < 0.3} if link == "copy" else set()
            xb = {k for k in fb if (k in xa and fa.get(k) == fb.get(k)) or rng.random() < 0.15} if link == "copy" else set()
            A = indexlab.explicit_index(fa, (), xa, cache_odb=cache)
            B = indexlab.explicit_index(fb, (), xb, cache_odb=cache)
            um = rng.random() < 0.5
            cfg = {"link": link, "update_meta": um, "a": sorted("/".join(k) for k in fa), "b": sorted("/".join(k) for k in fb)}
            res.evaluated()
            res.count("there_and_back_histories")
            errs = []
            steps = [("A", None, A, fa, xa), ("B-over-A", A, B, fb, xb), ("A-over-B", B, A, fa, xa)]
            if rng.random() < 0.5:
                steps.append(("B-over-A-again", A, B, fb, xb))
            for name, old_, new_, want, wantx in steps:
                apply(compare(old_, new_, delete=True), ws, fs, update_meta=um, storage="cache", onerror=lambda s_, dst, e: errs.append((name, dst, repr(e))), links=[link])
                got = walk_files(ws)
                if got != want or errs:
                    miss, extra = sorted(set(want) - set(got))[:2], sorted(set(got) - set(want))[:2]
                    res.violation(f"not-converged/same-handles-in-both-roles/{name}", f"after {name}: missing={miss} extra={extra} errors={errs[:1]}", case=case, detail=cfg)
                    break
                notx = sorted(k for k in wantx if not (os.stat(os.path.join(ws, *k)).st_mode & stat.S_IXUSR))
                if wantx:
                    res.count("exec_entries_checked", len(wantx))
                if notx:
                    res.violation(f"exec-entry-not-executable/same-handles-in-both-roles/{name}", f"after {name}: {['/'.join(k) for k in notx[:2]]} should be executable", case=case, detail=cfg)
                    break
            env.reset_staging()
            ctx.drop(d)

        if case % 40 == 23:
            ctx.guard(case, there_and_back)
        elif case % 8 == 5:
            ctx.guard(case, history)
        elif case % 16 == 9:
            ctx.guard(case, root_file)
        else:
            ctx.guard(case, one)
