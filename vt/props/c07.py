"""C07 - corrupted objects are detected and dropped, never served; intact ones unharmed."""

import os
import stat

from .. import env, gen
from ..oracle import DIR_SUFFIX, H, file_bytes, list_store, stat_token, walk_files

RULE = (
    "case = (store class local/base, state none / cold / warm-from-add (row written before the tampering), objects added by "
    "stage+transfer of a generated tree or by add, one or two victims among file and directory objects, tamper in {truncate, "
    "append, same-length rewrite, different-length rewrite, replace-by-rename}, always left unprotected (0644) with a changed "
    "(inode, mtime, size) token; probe in {check, local oids_exist mixing intact and tampered ids, object checkout of the file or "
    "of the tree containing it, verifying add of a source whose bytes do not match}); optionally the tampered object is first added again through the handle that added it, the existence query carries 250-700 further absent ids, or the removal of the rejected object is denied (EACCES injected at the unlink: raising is fine, serving is not).  Intact objects are probed too (also "
    "after being unprotected).  non-trivial = every case; distinct = (content, tamper, probe, configuration)"
)
ASSUMPTIONS = [
    "tampering leaves mode != 0o444 (write-protected corrupt objects are the property's stated exclusion)",
    "the stat token changes with every tamper (enforced: mtime nudged by 1us when the kernel gave an identical token; counted)",
    "existence queries reject corruption on local stores only (the base store's query is existence-only, as the statement says)",
]
MONITORS = "verdicts of check / oids_exist / checkout / verifying add compared with the harness's own ground truth of which objects were tampered; file presence and mode bits re-read from disk"
REQUIRED_COUNTERS = ["existence_only_looks_before_the_probe", "verifying_adds_of_several_mismatching_sources", "verify_add_over_tampered_stored_copy", "verifying_adds_with_hardlink_option", "verifying_adds_with_a_retrying_error_hook", "tree_level_checks", "verifying_adds_through_a_copied_store_object", "relinking_checkouts_over_intact_copies", "verify_transfer_rounds_by_configuration_only", "re_adds_of_tampered_object", "probes_with_removal_denied", "big_existence_queries", "verify_transfer_rounds", "verify_add_over_intact_object", "read_only_handle_probes", "used_intact_before_tamper", "probe/check", "probe/oids_exist", "probe/checkout", "probe/verify-add", "state/warm", "state/cold", "state/none",
                     "tampered_objects", "intact_objects_checked", "store/local", "store/base", "tamper/truncate", "tamper/append",
                     "tamper/same-length", "tamper/diff-length", "tamper/rename", "unprotected_intact_checked"]

TAMPERS = ["truncate", "append", "same-length", "diff-length", "rename"]


def tamper(rng, path, how):
    before = stat_token(path)
    data = file_bytes(path)
    os.chmod(path, 0o644)
    if how == "truncate":
        new = data[: len(data) // 2] if len(data) > 1 else b"XX"
        if new == data:
            new = data + b"!"
        with open(path, "r+b") as f:
            f.truncate(0)
            f.write(new)
    elif how == "append":
        new = data + b"\x00tail"
        with open(path, "ab") as f:
            f.write(b"\x00tail")
    elif how == "same-length":
        if not data:
            new = b"Z"
        else:
            i = rng.randrange(len(data))
            new = data[:i] + bytes([data[i] ^ 0x55]) + data[i + 1 :]
        with open(path, "r+b") as f:
            f.truncate(0)
            f.write(new)
    elif how == "diff-length":
        new = b"completely different " + bytes([rng.randrange(256)]) * (len(data) + 3)
        with open(path, "wb") as f:
            f.write(new)
    else:
        new = data[::-1] + b"#"
        gen.replace_by_rename(path, new)
    os.chmod(path, 0o644)
    bumped = gen.ensure_token_changed(path, before)
    return new, bumped


def run_shard(ctx):
    from dvc_objects.errors import ObjectFormatError

    from dvc_data.hashfile import load
    from dvc_data.hashfile.checkout import CheckoutError, checkout

    res = ctx.res
    fs = env.localfs()

    for case, rng in ctx.cases(ctx.plan["n"]):

        def one(case=case, rng=rng):
            d = ctx.fresh("t", disk=(case % 7 == 3))
            cls = rng.choice(["local", "local", "base"])
            smode = rng.choice(["none", "cold", "warm"])
            probe = rng.choice(["check", "check", "oids_exist", "checkout", "checkout", "verify-add"])
            if probe == "oids_exist":
                cls = "local"
            res.count(f"probe/{probe}")
            res.count(f"state/{smode}")
            res.count(f"store/{cls}")
            root = os.path.join(d, "cache")
            state = env.mk_state(d, os.path.join(d, "tmp")) if smode != "none" else None
            odb_add = env.odb_of_class(cls, root, state=state if smode == "warm" else None)
            ro = rng.random() < 0.2
            odb = env.odb_of_class(cls, root, state=state, **({"read_only": True} if ro else {}))
            if ro:
                res.count("read_only_handle_probes")
            files, _e = gen.tree(rng, depth=rng.randrange(0, 3), fanout=3, odd=0.3, dup=0.3, min_files=2)
            ws = os.path.join(d, "ws")
            gen.write_tree(ws, files)
            res.evaluated()
            cfg = {"store": cls, "state": smode, "probe": probe, "files": len(files), "read_only_handle": ro}

            if probe == "verify-add":
                # a source whose bytes do not match the oid it is added under
                k = rng.choice(sorted(files))
                src = os.path.join(ws, *k)
                good = H("md5", files[k])
                wrong = H("md5", files[k] + b"other")
                via_cfg = rng.random() < 0.5
                vodb = env.odb_of_class(cls, root, state=state, verify=True) if via_cfg else env.odb_of_class(cls, root, state=state)
                if via_cfg and state is None and rng.random() < 0.4:
                    # the store object reaches the adder as a deep copy (what DataIndex.view() does with its storage map)
                    import copy as _copy

                    vodb = _copy.deepcopy(vodb)
                    res.count("verifying_adds_through_a_copied_store_object")
                errs = []
                kw = {} if via_cfg else {"verify": True}
                if rng.random() < 0.3:
                    # the caller asks for hard links where possible (the source is an ordinary, writable file)
                    kw["hardlink"] = True
                    res.count("verifying_adds_with_hardlink_option")
                hook = (lambda o, e: errs.append(o)) if rng.random() < 0.5 else None
                retried = False
                if hook is not None and rng.random() < 0.4:
                    # a hook that retries: told that the object was rejected, it adds the right bytes for that id (from elsewhere) through
                    # the same store before returning
                    fallback = os.path.join(d, "fallback-source")
                    with open(fallback, "wb") as f:
                        f.write(files[k] + b"other")
                    retried = True
                    res.count("verifying_adds_with_a_retrying_error_hook")

                    def hook(o, e):
                        errs.append(o)
                        vodb.add([fallback], fs, [o], **{k_: v_ for k_, v_ in kw.items() if k_ != "hardlink"})

                srcs_, wrongs_ = [src], [wrong]
                if not retried and len(files) > 1 and rng.random() < 0.4:
                    # several mismatching sources in one call: every one of them is rejected, not just the first
                    for k2_ in [k_ for k_ in sorted(files) if k_ != k][: rng.randrange(1, 3)]:
                        srcs_.append(os.path.join(ws, *k2_))
                        wrongs_.append(H("md5", files[k2_] + b"other-%d" % len(srcs_)))
                    res.count("verifying_adds_of_several_mismatching_sources")
                vodb.add(srcs_, fs, wrongs_, on_error=hook, **kw)
                for w2_ in wrongs_[1:]:
                    if os.path.exists(vodb.oid_to_path(w2_)):
                        res.violation("verifying-add-retained-mismatching-object/not-the-first-of-the-call", f"object {w2_} (a later source of the same call) kept although its bytes do not match", case=case, detail=cfg)
                        break
                res.nontrivial("verify", files[k], cls, smode, via_cfg)
                res.sample({**cfg, "verify_via_config": via_cfg})
                p = vodb.oid_to_path(wrong)
                if retried:
                    if not os.path.exists(p) or H("md5", file_bytes(p)) != wrong:
                        res.violation("intact-object-deleted/added-by-the-retrying-error-hook", f"object {wrong}, added intact (and verified) by the caller's error hook, is "
                                      + ("gone" if not os.path.exists(p) else "mismatching") + " when the outer add returns", case=case, detail=cfg)
                elif os.path.exists(p):
                    res.violation("verifying-add-retained-mismatching-object" + ("/hardlink-option" if kw.get("hardlink") else ""), f"object {wrong} kept although its bytes hash to {good}", case=case, detail=cfg)
                # and a matching add is kept and (local) protected
                vodb.add([src], fs, [good], **kw)
                p = vodb.oid_to_path(good)
                if not os.path.exists(p) or file_bytes(p) != files[k]:
                    res.violation("verifying-add-dropped-intact-object", "a matching object was not retained by a verifying add", case=case, detail=cfg)
                elif cls == "local" and stat.S_IMODE(os.stat(p).st_mode) != 0o444:
                    res.violation("intact-object-not-read-only", "verified object not read-only in a local store", case=case, detail=cfg)
                # the object is present and intact; a verifying add of *other* bytes under the same id must not leave a mismatch behind
                if rng.random() < 0.7:
                    res.count("verify_add_over_intact_object")
                    other_src = os.path.join(ws, "other-src")
                    with open(other_src, "wb") as f:
                        f.write(files[k][::-1] + b"not-the-same")
                    ce_ = {"check_exists": False}
                    if rng.random() < 0.4:
                        # ... the stored copy itself has been tampered with since (left writable), and the re-add leaves existing
                        # objects to the store's own judgement (the default)
                        if cls == "local":
                            os.chmod(p, 0o644)
                        with open(p, "ab") as f:
                            f.write(b"tampered-in-the-store")
                        ce_ = {}
                        res.count("verify_add_over_tampered_stored_copy")
                    try:
                        vodb.add([other_src], fs, [good], on_error=(lambda o, e: errs.append(o)) if rng.random() < 0.5 else None, **ce_, **kw)
                    except Exception:  # noqa: BLE001  (refusing loudly is fine)
                        pass
                    if os.path.exists(p) and file_bytes(p) != files[k]:
                        res.violation("verifying-add-retained-mismatching-object/over-intact-object",
                                      f"after a verifying re-add of other bytes, object {good} holds bytes that do not match its name", case=case, detail=cfg)
                # a verifying transfer: source store (base class, no self-check) with a corrupt object; the verifying destination
                # must not retain anything that does not match its name - directory objects included
                if rng.random() < 0.5:
                    import json as _j

                    from dvc_data.hashfile.transfer import transfer as _transfer

                    from ..oracle import audit_store, canonical_dir_bytes, list_store as _ls

                    res.count("verify_transfer_rounds")
                    sroot = os.path.join(d, "vsrc")
                    slocal = env.local_odb(sroot)
                    _s1, _m1, sobj, _r1 = env.stage_and_transfer(slocal, ws)
                    sbase = env.base_odb(sroot)
                    sobjs, _t, _s2 = _ls(sroot)
                    victim = rng.choice(sorted(sobjs))
                    os.chmod(sobjs[victim], 0o644)
                    if victim.endswith(DIR_SUFFIX):
                        lst = _j.loads(file_bytes(sobjs[victim]))
                        with open(sobjs[victim], "wb") as f:
                            f.write(_j.dumps(lst, indent=2).encode())  # same listing, other bytes: does not hash to its name
                    else:
                        with open(sobjs[victim], "ab") as f:
                            f.write(b"!corrupt")
                    droot = os.path.join(d, "vdest")
                    vdest = env.odb_of_class(cls, droot, state=state, verify=True)
                    ids = {sobj.hash_info} | {hi for _k, _m2, hi in sobj}
                    # the destination is *configured* to verify; the caller may or may not repeat that wish in the call
                    vkw = {"verify": True} if rng.random() < 0.5 else {}
                    if not vkw:
                        res.count("verify_transfer_rounds_by_configuration_only")
                    try:
                        _transfer(sbase, vdest, ids, jobs=rng.choice([1, 4]), cache_odb=sbase, **vkw)
                    except Exception:  # noqa: BLE001  (loud is fine)
                        pass
                    probs, _objs, _nt = audit_store(droot, "md5", check_dirs=False)
                    for kind, oid, info_ in probs[:2]:
                        res.violation("verifying-transfer-retained-mismatching-object/" + ("" if vkw else "store-configured-to-verify/") + ("dir-object" if oid.endswith(DIR_SUFFIX) else "file-object"),
                                      f"after transfer(verify=True) the destination holds {oid} whose bytes do not match its name", case=case,
                                      detail={**cfg, "victim": victim})
                if state:
                    state.close()
                env.reset_staging()
                ctx.drop(d)
                return

            _st, _m, obj, r = env.stage_and_transfer(odb_add, ws)
            if r.failed:
                raise env.HarnessError("population failed")
            loaded_before = load(odb, obj.hash_info)  # the caller's in-memory tree, read before any tampering
            objs, _t, _s = list_store(root)
            oids = sorted(objs)
            file_oids = [o for o in oids if not o.endswith(DIR_SUFFIX)]
            # in half of the cases the objects are used while still intact (anything memoised then must not be trusted later)
            if rng.random() < 0.5:
                res.count("used_intact_before_tamper")
                pre = os.path.join(d, "pre-out")
                if rng.random() < 0.7:
                    checkout(pre, fs, loaded_before, odb, force=True, state=state)
                    if rng.random() < 0.5:
                        checkout(pre, fs, loaded_before, env.odb_of_class(cls, root, state=state), force=True, state=state)
                else:
                    for o in oids:
                        odb.check(o)
                    if cls == "local":
                        odb.oids_exist(list(oids))
            # victims
            victims = {rng.choice(file_oids)}
            if rng.random() < 0.25:
                victims.add(rng.choice(oids))
            how = rng.choice(TAMPERS)
            newbytes = {}
            for v in victims:
                nb, bumped = tamper(rng, objs[v], how)
                newbytes[v] = nb
                res.count("tampered_objects")
                res.count(f"tamper/{how}")
                if bumped:
                    res.count("forced_mtime_bumps")
            intact = [o for o in oids if o not in victims]
            # some intact objects lose their protection (must be re-protected by a successful check)
            unprot = set()
            for o in intact:
                if rng.random() < 0.3:
                    os.chmod(objs[o], 0o644)
                    unprot.add(o)
            # the tampered object is added again through the very handle that added it first (same source, plain add)
            if rng.random() < 0.3:
                by_oid = {H("md5", v_): os.path.join(ws, *k_) for k_, v_ in files.items()}
                for v in sorted(victims):
                    if v in by_oid:
                        res.count("re_adds_of_tampered_object")
                        odb_add.add([by_oid[v]], fs, [v])
                        if os.path.exists(objs[v]) and H("md5", file_bytes(objs[v])) == v:
                            victims.discard(v)  # repaired: an intact object from here on
                            newbytes.pop(v, None)
                            res.count("re_adds_that_repaired")
                if not victims:
                    victims = set()
                intact = [o for o in oids if o not in victims]
                cfg["re_added"] = True
            if victims and rng.random() < 0.25:
                # someone first only asks whether the objects are there (no hashing): that look must not launder them
                for v_ in sorted(victims):
                    try:
                        odb.check(v_, check_hash=False)
                    except Exception:  # noqa: BLE001
                        pass
                res.count("existence_only_looks_before_the_probe")
                cfg["existence_only_look_first"] = True
            # removal of the rejected object may be denied (shared cache / read-only mount): nothing may be served then either
            deny = rng.random() < 0.12 and bool(victims)
            denier = None
            if deny:
                import errno as _errno

                from ..monitors import AuditHub, FaultInjector

                vpaths = {os.path.abspath(objs[v]) for v in victims}
                denier = FaultInjector(lambda kind, p_, p2_: kind == "remove" and p_ is not None and os.path.abspath(p_) in vpaths, err=_errno.EACCES)
                AuditHub.add(denier)
                res.count("probes_with_removal_denied")
                cfg["removal_denied"] = True
            cfg.update({"tamper": how, "victims": sorted(victims), "objects": len(oids)})
            res.nontrivial(sorted((("/".join(k)), H("md5", v)) for k, v in files.items()), how, probe, cls, smode, sorted(victims))
            res.sample(cfg)

            def gone(o):
                return not os.path.lexists(objs[o])

            def check_intact(o, when):
                res.count("intact_objects_checked")
                if gone(o):
                    res.violation(f"intact-object-deleted/{when}", f"intact object {o} disappeared", case=case, detail=cfg)
                    return
                if cls == "local" and stat.S_IMODE(os.stat(objs[o]).st_mode) != 0o444:
                    res.violation(f"intact-object-not-read-only/{when}", f"intact object {o} not read-only after a successful check", case=case, detail=cfg)

            if probe == "check":
                for v in sorted(victims):
                    try:
                        odb.check(v)
                        res.violation(f"corrupt-object-passed-check/{how}/state-{smode}", f"check({v}) returned normally for tampered bytes", case=case, detail=cfg)
                    except ObjectFormatError:
                        if not gone(v) and not deny:
                            res.violation("corrupt-object-not-removed", f"check({v}) raised but the file is still there", case=case, detail=cfg)
                    except PermissionError:
                        if not deny:
                            raise
                        res.count("loud_permission_errors")
                    except FileNotFoundError:
                        res.violation("corrupt-object-check-filenotfound", "check raised FileNotFoundError for an existing tampered object", case=case, detail=cfg)
                if rng.random() < 0.4 and not deny:
                    # the tree-level integrity check (directory object with all it lists)
                    from dvc_data.hashfile import check as tree_check

                    res.count("tree_level_checks")
                    fv_ = {v for v in victims if not v.endswith(DIR_SUFFIX)}
                    # (re-tamper: the per-object checks above have removed the victims)
                    for v in sorted(fv_):
                        if gone(v):
                            os.makedirs(os.path.dirname(objs[v]), exist_ok=True)
                            with open(objs[v], "wb") as f:
                                f.write(newbytes.get(v, b"tampered again"))
                            os.chmod(objs[v], 0o644)
                    if fv_ and not any(v.endswith(DIR_SUFFIX) for v in victims):
                        try:
                            tree_check(odb, loaded_before)
                            res.violation(f"corrupt-object-passed-check/tree-level/{how}", "the tree-level check returned normally although a listed object is tampered", case=case, detail=cfg)
                        except ObjectFormatError:
                            pass
                        except FileNotFoundError:
                            pass
                        # (the check stops at the first object it rejects: that one at least is gone)
                        still = [v for v in sorted(fv_) if not gone(v) and H("md5", file_bytes(objs[v])) != v]
                        if len(still) == len(fv_):
                            res.violation("corrupt-object-not-removed/tree-level", f"every tampered object ({still[:2]}) is still in the store after the tree-level check", case=case, detail=cfg)
                for o in intact:
                    try:
                        odb.check(o)
                    except (ObjectFormatError, FileNotFoundError) as e:
                        res.violation("intact-object-rejected", f"check({o}) raised {type(e).__name__} for an intact object", case=case, detail=cfg)
                        continue
                    if o in unprot:
                        res.count("unprotected_intact_checked")
                    check_intact(o, "check")
            elif probe == "oids_exist":
                q = list(oids) + [H("md5", b"absent")]
                if rng.random() < 0.3:
                    # a big query (hundreds of mostly absent ids)
                    q += [H("md5", b"absent-%d" % i) for i in range(rng.choice([256, 300, 700]))]
                    res.count("big_existence_queries")
                rng.shuffle(q)
                try:
                    got = set(odb.oids_exist(q))
                except PermissionError:
                    if not deny:
                        raise
                    res.count("loud_permission_errors")
                    got = None
                for v in victims if got is not None else ():
                    if v in got:
                        res.violation(f"corrupt-object-reported-existing/{how}/state-{smode}", f"oids_exist lists tampered {v}", case=case, detail=cfg)
                    if not gone(v) and not deny:
                        res.violation("corrupt-object-not-removed/oids_exist", f"tampered {v} still on disk after the existence query", case=case, detail=cfg)
                for o in intact if got is not None else ():
                    if o not in got:
                        res.violation("intact-object-rejected/oids_exist", f"oids_exist does not list intact {o}", case=case, detail=cfg)
                    if o in unprot:
                        res.count("unprotected_intact_checked")
                    check_intact(o, "oids_exist")
                if got is not None and H("md5", b"absent") in got:
                    res.violation("absent-object-reported-existing", "oids_exist lists an id that is not in the store", case=case, detail=cfg)
            elif probe == "checkout" and rng.random() < 0.25:
                # a relinking checkout over a workspace that already holds the (intact) data as copies: the configured link type
                # has been switched, so unchanged files are to be relinked - from objects some of which are now tampered
                pre2 = os.path.join(d, "pre-relink")
                for k_, v_ in files.items():
                    fp_ = os.path.join(pre2, *k_)
                    os.makedirs(os.path.dirname(fp_), exist_ok=True)
                    with open(fp_, "wb") as f:
                        f.write(v_)
                lt_ = rng.choice(["hardlink", "symlink"])
                rodb = env.odb_of_class(cls, root, state=state, type=[lt_])
                res.count("relinking_checkouts_over_intact_copies")
                file_victims = {v for v in victims if not v.endswith(DIR_SUFFIX)}
                raised = False
                try:
                    checkout(pre2, fs, obj if rng.random() < 0.5 else loaded_before, rodb, force=True, relink=True, state=state)
                except (CheckoutError, ObjectFormatError, FileNotFoundError):
                    raised = True
                except PermissionError:
                    if not deny:
                        raise
                    raised = True
                got = walk_files(pre2)
                for k_, v_ in files.items():
                    if H("md5", v_) in file_victims and got.get(k_) is not None and got[k_] != v_:
                        res.violation(f"checkout-materialised-corrupt-bytes/relink/{lt_}", f"{'/'.join(k_)}: the intact copy was replaced by a link to the tampered object", case=case, detail=cfg)
                        break
                for v in sorted(file_victims):
                    if not gone(v) and stat.S_IMODE(os.stat(objs[v]).st_mode) == 0o444 and H("md5", file_bytes(objs[v])) != v and not deny:
                        res.violation("corrupt-object-protected-by-checkout/relink", f"tampered {v} was made read-only (trusted from now on) by the relinking checkout", case=case, detail=cfg)
                if file_victims and not raised and any(H("md5", v_) in file_victims for v_ in files.values()):
                    res.violation(f"checkout-served-corrupt-object/relink/{how}", "relinking checkout of a tree with a tampered file returned normally", case=case, detail=cfg)
            else:
                out = os.path.join(d, "out")
                target = obj if rng.random() < 0.5 else loaded_before
                file_victims = {v for v in victims if not v.endswith(DIR_SUFFIX)}
                if rng.random() < 0.3 and file_victims:
                    # single-file checkout of the tampered object itself
                    v = sorted(file_victims)[0]
                    target = odb.get(v)
                    outp = os.path.join(d, "outfile")
                    try:
                        ret = checkout(outp, fs, target, odb, force=True, state=state)
                        res.violation(f"checkout-served-corrupt-object/file/{how}", f"checkout of tampered {v} returned {ret!r}", case=case, detail=cfg)
                    except (CheckoutError, ObjectFormatError, FileNotFoundError):
                        pass
                    except PermissionError:
                        if not deny:
                            raise
                        res.count("loud_permission_errors")
                    if os.path.lexists(outp) and os.path.isfile(outp) and file_bytes(outp) != b"":
                        res.violation("checkout-materialised-corrupt-bytes/file", "a file was created from a tampered object", case=case, detail=cfg)
                else:
                    raised = False
                    try:
                        ret = checkout(out, fs, target, odb, force=True, state=state)
                    except CheckoutError:
                        raised = True
                    except (ObjectFormatError, FileNotFoundError):
                        raised = True
                    except PermissionError:
                        if not deny:
                            raise
                        raised = True
                        res.count("loud_permission_errors")
                    got = walk_files(out) if os.path.isdir(out) else {}
                    bad_rel = {k for k, v in files.items() if H("md5", v) in file_victims}
                    if file_victims and not raised:
                        res.violation(f"checkout-served-corrupt-object/tree/{how}/state-{smode}", f"checkout of a tree with a tampered file returned {ret!r}",
                                      case=case, detail=cfg)
                    for k in bad_rel:
                        if k in got and got[k] is not None and got[k] != files[k]:
                            res.violation("checkout-materialised-corrupt-bytes/tree", f"{'/'.join(k)} was created with tampered bytes", case=case, detail=cfg)
                    for k, v in got.items():
                        if v is not None and k in files and v != files[k] and k not in bad_rel:
                            res.violation("checkout-wrong-bytes-for-intact-file", f"{'/'.join(k)} differs", case=case, detail=cfg)
                for o in intact:
                    if not o.endswith(DIR_SUFFIX):
                        if gone(o):
                            res.violation("intact-object-deleted/checkout", f"intact object {o} disappeared during checkout", case=case, detail=cfg)
            if denier is not None:
                from ..monitors import AuditHub

                AuditHub.remove(denier)
            if state:
                state.close()
            env.reset_staging()
            ctx.drop(d)

        def one_guarded(case=case, one=one):
            try:
                one()
            finally:
                from ..monitors import AuditHub

                for h in list(AuditHub._handlers):
                    if type(h).__name__ == "FaultInjector":
                        AuditHub.remove(h)

        ctx.guard(case, one_guarded)
