"""Seeded generators: names, contents, trees, user edits."""

import hashlib
import os

NAMES_ASCII = [
    "a", "b", "c", "d", "e", "f", "data", "data.csv", "x.txt", "README", "model.pkl",
    "file with space", ".hidden", "UPPER", "a.b.c", "-dash", "_", "0", "00", "z" * 40,
    "dir", "sub", "foo", "bar", "baz", "train", "test", "img.png", "~tilde", "a+b", "100%",
    "semi;colon", "amp&er", "(paren)", "[brk]", "{brc}", "comma,", "eq=", "#hash", "a.tmp.x",
]
NAMES_ODD = [
    "tab\tname", "nl\nname", "back\\slash", 'quote"q', "apos'q", "é", "é", "日本語", "ファイル",
    "😀", "a😀b", "שלום", "ａｂ", "Ω", "ß", " nbsp", "del\x7f", "bell\x07",
    "ünï.cödé", "中文 文件.txt", "‮RTL", " leading", "trailing ", "dot.", "..x", "a​b",
]


def name(rng, used=(), odd=0.3):
    for _ in range(200):
        pool = NAMES_ODD if rng.random() < odd else NAMES_ASCII
        n = rng.choice(pool)
        if rng.random() < 0.25:
            n = n + str(rng.randrange(100))
        if n in used or n in (".", "..", ".dvcignore", "") or "/" in n or "\x00" in n:
            continue
        if len(n.encode("utf-8")) > 200:
            continue
        return n
    return f"n{rng.randrange(10**9)}"


def _text(rng, n, eol):
    words = [b"alpha", b"beta", b"gamma", b"1,2,3", b"x=1", b"", b"# c", b"\xc3\xa9t\xc3\xa9"]
    out = bytearray()
    while len(out) < n:
        out += rng.choice(words)
        e = eol if eol != "mixed" else rng.choice([b"\n", b"\r\n", b"\r"])
        out += e
    return bytes(out[:n]) if n else b""


def content(rng, big=0.03):
    """One byte string; categories cover the sniff window, the read size and text/binary."""
    r = rng.random()
    if r < 0.07:
        return b""
    if r < 0.12:
        return bytes([rng.randrange(256)])
    if r < big + 0.12:
        n = rng.choice([2**20 - 1, 2**20, 2**20 + 1, 2**20 + 513, 2**21 + 7])
        kind = rng.random()
        if kind < 0.4:
            return rng.randbytes(n)
        if kind < 0.8:
            return _text(rng, n, rng.choice([b"\n", b"\r\n", "mixed"]))
        # text head, CR exactly at the read boundary
        d = bytearray(_text(rng, n, b"\r\n"))
        if len(d) > 2**20:
            d[2**20 - 1 : 2**20 + 1] = b"\r\n"
        return bytes(d)
    n = rng.choice([2, 3, 10, 100, 511, 512, 513, 514, 1000, 1024, 4095, 4096, 4097, rng.randrange(1, 3000)])
    kind = rng.random()
    if kind < 0.30:
        return rng.randbytes(n)
    if kind < 0.50:
        return _text(rng, n, b"\n")
    if kind < 0.70:
        return _text(rng, n, b"\r\n")
    if kind < 0.82:
        return _text(rng, n, "mixed")
    if kind < 0.90:
        # text with a NUL late (after the sniff window when long enough)
        d = bytearray(_text(rng, n, b"\r\n"))
        d[-1:] = b"\x00"
        return bytes(d)
    # ~30 % non-text boundary
    d = bytearray(_text(rng, n, b"\r\n"))
    k = int(min(len(d), 512) * rng.choice([0.29, 0.30, 0.31]))
    for i in rng.sample(range(min(len(d), 512)), min(k, min(len(d), 512))):
        d[i] = 0x80 + rng.randrange(100)
    return bytes(d)


def small_content(rng):
    return content(rng, big=0.0)


_mined = {}


def mined_00(rng, algo="md5", tag=b""):
    """Content whose digest starts with '00' (steers the base store's size estimate)."""
    base = b"mined-" + tag + str(rng.randrange(10**9)).encode()
    i = 0
    while True:
        d = base + b"-" + str(i).encode()
        if hashlib.new(algo, d).hexdigest().startswith("00"):
            return d
        i += 1


def pool(rng, n, big=0.0):
    return [content(rng, big=big) for _ in range(n)]


def tree(rng, depth=3, fanout=4, pool_=None, dup=0.4, odd=0.3, min_files=1, big=0.0, empty_dirs=True):
    """-> (files {key tuple: bytes}, empty_dirs set(key tuple))"""
    pool_ = pool_ if pool_ is not None else pool(rng, rng.randrange(1, 6), big=big)
    files, empties = {}, set()

    def fill(prefix, d):
        used = set()
        nfiles = rng.randrange(0, fanout + 1)
        for _ in range(nfiles):
            nm = name(rng, used, odd)
            used.add(nm)
            if rng.random() < dup and pool_:
                c = rng.choice(pool_)
            else:
                c = content(rng, big=big)
            files[(*prefix, nm)] = c
        if d > 0:
            for _ in range(rng.randrange(0, 3)):
                nm = name(rng, used, odd)
                used.add(nm)
                before = len(files)
                fill((*prefix, nm), d - 1)
                if len(files) == before and empty_dirs:
                    empties.add((*prefix, nm))

    fill((), depth)
    if rng.random() < 0.12:
        # two siblings whose names are canonically equivalent (composed / decomposed) but different on disk
        base = rng.choice([()] + sorted({k[:-1] for k in files}))
        a, b = "caf\u00e9.txt", "cafe\u0301.txt"
        if not any(k[: len(base) + 1] in ((*base, a), (*base, b)) for k in files):
            files[(*base, a)] = small_content(rng) + b"nfc"
            files[(*base, b)] = small_content(rng) + b"nfd"
            empties.discard(base)
    while len(files) < min_files:
        nm = name(rng, {k[0] for k in files} | {k[0] for k in empties}, odd)
        files[(nm,)] = rng.choice(pool_) if pool_ and rng.random() < dup else content(rng, big=big)
    # an "empty dir" whose descendant dir is empty is itself only structure; keep leaf ones
    # drop empties that are prefixes of files (cannot happen by construction) and nested empties' parents
    empties = {e for e in empties if not any(k[: len(e)] == e for k in files)}
    return files, empties


def write_tree(root, files, empties=(), mode=None):
    os.makedirs(root, exist_ok=True)
    for key, data in files.items():
        p = os.path.join(root, *key)
        os.makedirs(os.path.dirname(p), exist_ok=True)
        with open(p, "wb") as f:
            f.write(data)
        if mode is not None:
            os.chmod(p, mode)
    for key in empties:
        os.makedirs(os.path.join(root, *key), exist_ok=True)


def replace_by_rename(path, data):
    tmp = path + ".verif-new"
    with open(tmp, "wb") as f:
        f.write(data)
    os.replace(tmp, path)


def ensure_token_changed(path, before):
    """Property quantifiers speak of mutations that change (inode, mtime, size); when the kernel
    gave an identical token, move mtime by 1 us.  -> True when a bump was needed."""
    st = os.stat(path)
    if (st.st_ino, st.st_mtime_ns, st.st_size) != before:
        return False
    os.utime(path, ns=(st.st_atime_ns, st.st_mtime_ns + 1000))
    return True


def mutate_tree(rng, files, empties=(), pool_=None, kind_swaps=True, nops=None):
    """Derive another tree from `files`: adds, modifications, deletions, nested-directory removal and
    (when allowed) file<->directory replacements at any depth.  -> (files, empties, ops)"""
    files = dict(files)
    empties = set(empties)
    ops = []
    pool_ = pool_ or [small_content(rng) for _ in range(3)]

    def dirs():
        s = set()
        for k in files:
            for i in range(1, len(k)):
                s.add(k[:i])
        return sorted(s)

    def occupied(k):
        # is k (or an ancestor) a file, or k a directory?
        if k in files or k in empties:
            return True
        for i in range(1, len(k)):
            if k[:i] in files:
                return True
        return any(f[: len(k)] == k for f in files) or any(e[: len(k)] == k for e in empties)

    for _ in range(nops if nops is not None else rng.randrange(1, 6)):
        ch = ["add", "modify", "delete", "deldir", "add-nested"]
        if kind_swaps:
            ch += ["file->dir", "dir->file", "file->dir", "dir->file"]
        op = rng.choice(ch)
        ds = dirs()
        if op == "add":
            base = rng.choice([()] + ds)
            k = (*base, name(rng, odd=0.2))
            if not occupied(k) and len(k) <= 5:
                files[k] = rng.choice(pool_) if rng.random() < 0.5 else small_content(rng)
                empties.discard(base)
                ops.append(("add", k))
        elif op == "add-nested":
            base = rng.choice([()] + ds)
            k = (*base, name(rng, odd=0.2), name(rng, odd=0.2), name(rng, odd=0.2))
            if not occupied(k[: len(base) + 1]) and len(k) <= 5:
                files[k] = small_content(rng)
                ops.append(("add-nested", k))
        elif op == "modify" and files:
            k = rng.choice(sorted(files))
            files[k] = small_content(rng) + b"!"
            ops.append(("modify", k))
        elif op == "delete" and len(files) > 1:
            k = rng.choice(sorted(files))
            del files[k]
            ops.append(("delete", k))
        elif op == "deldir" and ds:
            dk = rng.choice(ds)
            victims = [f for f in files if f[: len(dk)] == dk]
            if len(victims) < len(files):
                for f in victims:
                    del files[f]
                empties = {e for e in empties if e[: len(dk)] != dk}
                ops.append(("deldir", dk))
        elif op == "file->dir" and files:
            k = rng.choice(sorted(files))
            if len(k) <= 3:
                del files[k]
                n1 = name(rng, odd=0.2)
                files[(*k, n1)] = small_content(rng)
                if rng.random() < 0.5:
                    files[(*k, name(rng, used={n1}, odd=0.2), name(rng, odd=0.2))] = rng.choice(pool_)
                ops.append(("file->dir", k))
        elif op == "dir->file" and ds:
            dk = rng.choice(ds)
            victims = [f for f in files if f[: len(dk)] == dk]
            for f in victims:
                del files[f]
            empties = {e for e in empties if e[: len(dk)] != dk}
            files[dk] = small_content(rng)
            ops.append(("dir->file", dk))
    # normalise: no empty dir that is a prefix of (or equal to) a file path, or below a file
    empties = {
        e for e in empties
        if not any(f[: len(e)] == e for f in files) and not any(e[: len(f)] == f for f in files)
    }
    return files, empties, ops


def big_files(rng, n=3):
    """n contents above the 1 MiB large-file threshold with clearly different sizes (so that parallel hashing completes
    them in another order than they were submitted)"""
    sizes = [2**20 + 17, 3 * 2**20 + 5, 6 * 2**20 + 1][:n]
    rng.shuffle(sizes)
    return [bytes([rng.randrange(256)]) * 7 + rng.randbytes(64) * (sz // 64) + b"tail" for sz in sizes]
