"""Thin helpers over dvc-data's public API, used by every property workload."""

import os

from .common import REPO_SRC, HarnessError


def assert_repo_under_test():
    import dvc_data

    f = os.path.realpath(dvc_data.__file__)
    if not f.startswith(os.path.realpath(REPO_SRC) + os.sep):
        raise HarnessError(f"dvc_data imported from {f}, not from {REPO_SRC}")


def localfs():
    from dvc_objects.fs.local import LocalFileSystem

    return LocalFileSystem()


def mk_state(ws_root, tmp_dir):
    from dvc_data.hashfile.state import State

    os.makedirs(tmp_dir, exist_ok=True)
    return State(root_dir=ws_root, tmp_dir=tmp_dir)


def local_odb(path, state=None, **cfg):
    from dvc_data.hashfile.db.local import LocalHashFileDB

    os.makedirs(path, exist_ok=True)
    if state is not None:
        cfg["state"] = state
    return LocalHashFileDB(localfs(), path, **cfg)


def base_odb(path, state=None, fs=None, **cfg):
    """The base class over the local filesystem (as the test-suite does) or over a FaultyFS."""
    from dvc_data.hashfile.db import HashFileDB

    os.makedirs(path, exist_ok=True)
    if state is not None:
        cfg["state"] = state
    return HashFileDB(fs or localfs(), path, **cfg)


def remote_odb(path, fs=None, **cfg):
    from dvc_data.hashfile.db import HashFileDB

    from .monitors import FaultyFS

    os.makedirs(path, exist_ok=True)
    fs = fs or FaultyFS()
    return HashFileDB(fs, path, **cfg)


def odb_of_class(cls_name, path, state=None, **cfg):
    if cls_name == "local":
        return local_odb(path, state=state, **cfg)
    if cls_name == "base":
        return base_odb(path, state=state, **cfg)
    if cls_name == "remote":
        return remote_odb(path, **cfg)
    raise ValueError(cls_name)


def stage(odb, path, name=None, **kw):
    """build() -> (staging, meta, obj)"""
    from dvc_data.hashfile.build import build

    return build(odb, path, localfs(), name or odb.hash_name, **kw)


def stage_and_transfer(odb, path, name=None, shallow=False, **kw):
    from dvc_data.hashfile.transfer import transfer

    staging, meta, obj = stage(odb, path, name, **kw)
    res = transfer(staging, odb, {obj.hash_info}, shallow=shallow, hardlink=False)
    return staging, meta, obj, res


def HI(name, value):
    from dvc_data.hashfile.hash_info import HashInfo

    return HashInfo(name, value)


def reset_staging():
    """The staging area is a process-global memfs; wipe it between cases so that cases are
    independent (dvc itself never relies on leftovers)."""
    try:
        from fsspec.implementations.memory import MemoryFileSystem as M

        M.store.clear()
        M.pseudo_dirs[:] = [""]
    except Exception:  # noqa: BLE001
        pass
