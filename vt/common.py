"""Shard context, result collector and small helpers shared by every property."""

import hashlib
import json
import os
import random
import shutil
import sys
import time
import traceback

VERIF_ROOT = os.path.dirname(os.path.dirname(os.path.abspath(__file__)))
REPO_ROOT = os.environ.get("VERIF_REPO", "/repo")
REPO_SRC = os.path.join(REPO_ROOT, "src")
GUARD = "DVC_DATA_VERIF"

MAX_VIOLATIONS_KEPT = 40
MAX_SAMPLES = 6


def h64(*parts) -> str:
    m = hashlib.blake2b(digest_size=8)
    for p in parts:
        if not isinstance(p, bytes):
            p = repr(p).encode("utf-8", "surrogatepass")
        m.update(p)
        m.update(b"\x00")
    return m.hexdigest()


def case_rng(pid: str, seed: int, shard: int, case: int, salt: str = "") -> random.Random:
    return random.Random(int(h64(pid, seed, shard, case, salt), 16))


def jsonable(o, depth=0):
    """Best-effort conversion of harness values into JSON (for samples / replays)."""
    if depth > 8:
        return repr(o)
    if isinstance(o, (str, int, float, bool)) or o is None:
        return o
    if isinstance(o, bytes):
        if len(o) > 48:
            return {"bytes_len": len(o), "md5": hashlib.md5(o).hexdigest(), "head": o[:24].hex()}  # noqa: S324
        return {"bytes_hex": o.hex()}
    if isinstance(o, dict):
        return {
            (k if isinstance(k, str) else "/".join(map(str, k)) if isinstance(k, tuple) else repr(k)): jsonable(v, depth + 1)
            for k, v in o.items()
        }
    if isinstance(o, (list, tuple, set, frozenset)):
        seq = sorted(o, key=repr) if isinstance(o, (set, frozenset)) else o
        return [jsonable(v, depth + 1) for v in seq]
    return repr(o)


class HarnessError(Exception):
    """The harness could not set the case up (never a verdict about the repository)."""


class Result:
    """Collector for one shard; serialised as one JSON document."""

    def __init__(self, pid, tier, seed, shard):
        self.pid, self.tier, self.seed, self.shard = pid, tier, seed, shard
        self.evaluations = 0
        self.distinct = set()
        self.violations = []
        self.violation_count = 0
        self.samples = []
        self.counters = {}
        self.inconclusive = None
        self.notes = []

    def evaluated(self, n=1):
        self.evaluations += n

    def nontrivial(self, *sig):
        self.distinct.add(h64(*sig))

    def count(self, name, n=1):
        self.counters[name] = self.counters.get(name, 0) + n

    def setmax(self, name, v):
        if v > self.counters.get(name, 0):
            self.counters[name] = v

    def sample(self, obj, force=False):
        if force or len(self.samples) < MAX_SAMPLES:
            self.samples.append(jsonable(obj))

    def violation(self, key, what, case=None, detail=None):
        """key: mechanism signature (stable, not data dependent); what: one line."""
        self.violation_count += 1
        self.count("violations/" + key)
        if len(self.violations) < MAX_VIOLATIONS_KEPT:
            self.violations.append(
                {
                    "property": self.pid,
                    "key": f"{self.pid}/{key}",
                    "what": what,
                    "replay": {
                        "property": self.pid,
                        "tier": self.tier,
                        "seed": self.seed,
                        "shard": self.shard,
                        "case": case,
                        "hashseed": os.environ.get("PYTHONHASHSEED"),
                    },
                    "detail": jsonable(detail),
                }
            )

    def dump(self):
        return {
            "property": self.pid,
            "tier": self.tier,
            "seed": self.seed,
            "shard": self.shard,
            "evaluations": self.evaluations,
            "distinct": sorted(self.distinct),
            "violations": self.violations,
            "violation_count": self.violation_count,
            "samples": self.samples,
            "counters": self.counters,
            "inconclusive": self.inconclusive,
            "notes": self.notes[:20],
        }


def classify_exception(exc: BaseException):
    """Where was the exception raised: inside the code under test or in the harness?"""
    tb = traceback.extract_tb(exc.__traceback__)
    where = "harness"
    func = "?"
    for fr in reversed(tb):
        fn = fr.filename
        if fn.startswith(REPO_SRC) or "/dvc_objects/" in fn:
            where = "repo"
            func = f"{os.path.basename(fn)}:{fr.name}"
            break
        if fn.startswith(VERIF_ROOT):
            # innermost frame is harness code: a TypeError/AttributeError raised at a
            # call boundary surfaces here, as does any bug of ours
            func = f"{os.path.basename(fn)}:{fr.name}"
            where = "harness"
            break
        # frames in site-packages / stdlib: keep looking outwards
    return where, func


class Ctx:
    def __init__(self, pid, tier, seed, shard, nshards, replay_case=None, budget_s=None):
        self.pid, self.tier, self.seed = pid, tier, seed
        self.shard, self.nshards = shard, nshards
        self.replay_case = replay_case
        self.res = Result(pid, tier, seed, shard)
        self.t0 = time.monotonic()
        self.budget_s = budget_s
        base = os.environ.get("VERIF_SCRATCH_SHM", "/dev/shm")
        if not os.path.isdir(base) or not os.access(base, os.W_OK):
            base = "/var/tmp"
        self.scratch_root = os.path.join(base, f"dvcverif-{os.getpid()}-{pid}-{shard}")
        self.disk_root = os.path.join(
            os.environ.get("VERIF_SCRATCH_DISK", "/var/tmp"), f"dvcverif-{os.getpid()}-{pid}-{shard}"
        )
        shutil.rmtree(self.scratch_root, ignore_errors=True)
        os.makedirs(self.scratch_root)
        self._n = 0
        self.verbose = replay_case is not None

    # ---- scratch -------------------------------------------------------
    def fresh(self, name="c", disk=False):
        """A scratch directory.  Names are *re-used* once a case has dropped its directory (a small pool per name), so that
        anything the code under test remembers process-wide per path or per store outlives the data it was about."""
        self._n += 1
        root = self.disk_root if disk else self.scratch_root
        for i in range(1, 9):
            d = os.path.join(root, f"{name}{i}")
            if not os.path.lexists(d):
                os.makedirs(d)
                return d
        d = os.path.join(root, f"{name}x{self._n}")
        os.makedirs(d)
        return d

    def drop(self, d):
        _force_rmtree(d)

    def cleanup(self):
        _force_rmtree(self.scratch_root)
        _force_rmtree(self.disk_root)

    # ---- budget --------------------------------------------------------
    def out_of_time(self):
        return self.budget_s is not None and time.monotonic() - self.t0 > self.budget_s

    def cases(self, n, salt=""):
        """Yield (case_index, rng) for this shard's share of n cases (striped)."""
        for i in range(self.shard, n, self.nshards):
            if self.replay_case is not None and i != self.replay_case:
                continue
            if self.out_of_time():
                self.res.count("stopped_by_time_budget")
                return
            yield i, case_rng(self.pid, self.seed, self.shard, i, salt)

    def guard(self, case, fn, *a, **kw):
        """Run one case; classify anything it lets escape."""
        try:
            return fn(*a, **kw)
        except HarnessError as e:
            self.res.count("harness_skips")
            self.res.notes.append(f"case {case}: harness skip: {e}")
        except Exception as e:  # noqa: BLE001
            where, func = classify_exception(e)
            tb = "".join(traceback.format_exception(type(e), e, e.__traceback__))[-3000:]
            if where == "repo":
                self.res.violation(
                    f"unexpected-exception/{type(e).__name__}@{func}",
                    f"operation that the property requires to succeed raised {type(e).__name__}: {e}"[:300],
                    case=case,
                    detail={"traceback": tb},
                )
            else:
                self.res.count("harness_errors")
                self.res.notes.append(f"case {case}: harness error {type(e).__name__}: {e}\n{tb}")
                self.res.counters.setdefault("first_harness_error", 0)
                if not getattr(self.res, "_first_he", None):
                    self.res._first_he = f"case {case}: {type(e).__name__}: {e}"[:300]
                    self.res.notes.insert(0, "first harness error: " + self.res._first_he)
        return None

    def log(self, *a):
        if self.verbose:
            print("[replay]", *a, file=sys.stderr)


def _force_rmtree(d):
    if not os.path.lexists(d):
        return

    def onerr(func, p, exc):
        try:
            os.chmod(os.path.dirname(p), 0o700)
            os.chmod(p, 0o700)
            func(p)
        except OSError:
            pass

    shutil.rmtree(d, onerror=onerr)


def write_json(path, obj):
    tmp = f"{path}.{os.getpid()}.tmp"
    with open(tmp, "w", encoding="utf-8") as f:
        json.dump(obj, f, indent=1, sort_keys=True, ensure_ascii=True)
        f.write("\n")
    os.replace(tmp, path)
