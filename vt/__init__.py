"""Runtime-monitoring machinery for iterative/dvc-data (see /verif/DESIGN.md)."""
