"""Independent references, written from the property statements.

Nothing in this module imports dvc_data or dvc_objects: hashing is hashlib/blake3, directory
listings are encoded by hand, stores are inspected with os.walk.
"""

import hashlib
import json
import os
import stat

DIR_SUFFIX = ".dir"
_TEXT_CHARS = bytes(range(32, 127)) + b"\n\r\t\f\b"
READ_SIZE = 2**20
SNIFF = 512


# ---------------------------------------------------------------- hashing
def _is_text_block(block: bytes) -> bool:
    if not block:
        return True
    if b"\x00" in block:
        return False
    nontext = block.translate(None, _TEXT_CHARS)
    return len(nontext) / len(block) <= 0.30


def md5_dos2unix(data: bytes, read_size: int = READ_SIZE) -> str:
    """Legacy text-normalising md5: per read of `read_size` bytes, CRLF->LF when the first 512
    bytes of that read look like text."""
    m = hashlib.md5()  # noqa: S324
    for off in range(0, len(data), read_size):
        chunk = data[off : off + read_size]
        if _is_text_block(chunk[:SNIFF]):
            chunk = chunk.replace(b"\r\n", b"\n")
        m.update(chunk)
    return m.hexdigest()


def H(name: str, data: bytes) -> str:
    name = name.lower()
    if name == "md5-dos2unix":
        return md5_dos2unix(data)
    if name == "blake3":
        import blake3

        return blake3.blake3(data).hexdigest()
    return hashlib.new(name, data).hexdigest()


def file_bytes(path: str) -> bytes:
    with open(path, "rb") as f:
        return f.read()


# ---------------------------------------------------------------- canonical listing
def _jstr(s: str) -> str:
    """JSON string with ensure_ascii escaping, by hand (so as not to share json.dumps' path)."""
    out = ['"']
    for ch in s:
        o = ord(ch)
        if ch == '"':
            out.append('\\"')
        elif ch == "\\":
            out.append("\\\\")
        elif ch == "\n":
            out.append("\\n")
        elif ch == "\r":
            out.append("\\r")
        elif ch == "\t":
            out.append("\\t")
        elif ch == "\b":
            out.append("\\b")
        elif ch == "\f":
            out.append("\\f")
        elif o < 0x20 or o == 0x7F:
            out.append("\\u%04x" % o)
        elif o < 0x7F:
            out.append(ch)
        elif o < 0x10000:
            out.append("\\u%04x" % o)
        else:
            o -= 0x10000
            out.append("\\u%04x\\u%04x" % (0xD800 | (o >> 10), 0xDC00 | (o & 0x3FF)))
    out.append('"')
    return "".join(out)


def canonical_dir_bytes(listing: dict, field: str = "md5") -> bytes:
    """listing: {relpath (posix str): digest}.  Canonical form = JSON list sorted by relpath of
    objects with keys sorted ("md5" < "relpath")."""
    assert field < "relpath"
    items = []
    for rel in sorted(listing):
        items.append("{%s: %s, %s: %s}" % (_jstr(field), _jstr(listing[rel]), _jstr("relpath"), _jstr(rel)))
    return ("[" + ", ".join(items) + "]").encode("ascii")


def canonical_dir_oid(listing: dict, field: str = "md5") -> str:
    return hashlib.md5(canonical_dir_bytes(listing, field)).hexdigest() + DIR_SUFFIX  # noqa: S324


def parse_dir_bytes(raw: bytes):
    """-> ({relpath: digest}, field) or raises ValueError."""
    lst = json.loads(raw.decode("utf-8"))
    if not isinstance(lst, list):
        raise ValueError("not a list")
    out = {}
    field = None
    for e in lst:
        if not isinstance(e, dict) or "relpath" not in e:
            raise ValueError("bad entry")
        keys = [k for k in e if k != "relpath"]
        hk = [k for k in keys if k in ("md5", "sha256", "sha1", "sha512", "blake3", "etag", "checksum")]
        if len(hk) < 1:
            raise ValueError("entry without digest")
        field = hk[0]
        if e["relpath"] in out:
            raise ValueError("duplicate relpath")
        out[e["relpath"]] = e[hk[0]]
    return out, field


def listing_of_tree(tree: dict, name: str = "md5") -> dict:
    """tree: {key tuple: bytes} -> {posix relpath: digest}"""
    return {"/".join(k): H(name, v) for k, v in tree.items()}


# ---------------------------------------------------------------- store inspection
def is_tmp_name(fname: str) -> bool:
    return fname.endswith(".tmp")


def list_store(root: str):
    """-> (objects {oid: path}, temps [path], strays [path])   layout: <root>/<2>/<rest>"""
    objects, temps, strays = {}, [], []
    if not os.path.isdir(root):
        return objects, temps, strays
    for dirpath, _dirs, files in os.walk(root):
        rel = os.path.relpath(dirpath, root)
        for f in files:
            p = os.path.join(dirpath, f)
            if is_tmp_name(f):
                temps.append(p)
            elif rel != "." and os.sep not in rel and len(rel) == 2 and f:
                objects[rel + f] = p
            else:
                strays.append(p)
    return objects, temps, strays


def audit_store(root: str, algo: str = "md5", check_dirs: bool = True, want_mode=None):
    """Re-hash every object.  -> (problems [(kind, oid, info)], objects {oid: path}, ntemps)"""
    objects, temps, _strays = list_store(root)
    problems = []
    for oid, path in objects.items():
        try:
            data = file_bytes(path)
        except FileNotFoundError:
            continue
        base = oid[: -len(DIR_SUFFIX)] if oid.endswith(DIR_SUFFIX) else oid
        if oid.endswith(DIR_SUFFIX):
            # a directory object's name is the md5 (of the store's md5 flavour) of its listing
            halgo = "md5" if algo in ("md5", "md5-dos2unix") else algo
            actual = H(halgo, data)
        else:
            actual = H(algo, data)
        if actual != base:
            problems.append(("name-mismatch", oid, {"actual": actual, "size": len(data)}))
            continue
        if check_dirs and oid.endswith(DIR_SUFFIX):
            try:
                listing, field = parse_dir_bytes(data)
            except ValueError as e:
                problems.append(("dir-unparsable", oid, {"err": str(e)}))
                continue
            if canonical_dir_bytes(listing, field or "md5") != data:
                problems.append(("dir-not-canonical", oid, {"n": len(listing)}))
        if want_mode is not None:
            mode = stat.S_IMODE(os.lstat(path).st_mode)
            if mode != want_mode:
                problems.append(("mode", oid, {"mode": oct(mode)}))
    return problems, objects, len(temps)


def store_snapshot(root: str) -> dict:
    """{oid: bytes}"""
    objects, _t, _s = list_store(root)
    out = {}
    for oid, p in objects.items():
        try:
            out[oid] = file_bytes(p)
        except FileNotFoundError:
            pass
    return out


def closure_problems(root: str):
    """Directory objects first, then their children (sound while files are only ever added)."""
    objects, _t, _s = list_store(root)
    problems = []
    ndirs = 0
    for oid, p in sorted(objects.items()):
        if not oid.endswith(DIR_SUFFIX):
            continue
        try:
            listing, _f = parse_dir_bytes(file_bytes(p))
        except (ValueError, FileNotFoundError, UnicodeDecodeError):
            continue  # unparsable: not "a directory object present" (C01/C15 judge it)
        ndirs += 1
        missing = sorted({v for v in listing.values() if not os.path.isfile(os.path.join(root, v[:2], v[2:]))})
        if missing:
            problems.append((oid, missing))
    return problems, ndirs


# ---------------------------------------------------------------- workspace inspection
def walk_files(root: str, follow=True) -> dict:
    """{key tuple: bytes} for every regular file (symlinks followed) below root."""
    out = {}
    if os.path.isfile(root):
        return {(): file_bytes(root)}
    for dirpath, dirs, files in os.walk(root, followlinks=False):
        rel = os.path.relpath(dirpath, root)
        pre = () if rel == "." else tuple(rel.split(os.sep))
        for f in files:
            p = os.path.join(dirpath, f)
            try:
                out[(*pre, f)] = file_bytes(p)
            except FileNotFoundError:
                out[(*pre, f)] = None  # broken symlink
        for d in list(dirs):
            p = os.path.join(dirpath, d)
            if os.path.islink(p):
                dirs.remove(d)
    return out


def walk_dirs(root: str) -> set:
    out = set()
    for dirpath, dirs, _files in os.walk(root):
        rel = os.path.relpath(dirpath, root)
        pre = () if rel == "." else tuple(rel.split(os.sep))
        for d in dirs:
            out.add((*pre, d))
    return out


def stat_token(path: str):
    st = os.stat(path)
    return (st.st_ino, st.st_mtime_ns, st.st_size)
