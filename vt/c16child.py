"""One concurrent writer process for C16:  python -m vt.c16child SPEC.json"""

import json
import logging
import os
import random
import sys
import time
import traceback

from .monitors import AuditHub


def main(argv):
    with open(argv[0], encoding="utf-8") as f:
        spec = json.load(f)
    logging.disable(logging.CRITICAL)
    root, wid = spec["root"], spec["writer"]
    cache_root = os.path.join(root, "cache") + os.sep
    rng = random.Random(spec["seed"])
    events = []
    max_ms = spec.get("jitter_ms", 2.0)

    def handler(kind, path, path2, extra):
        tgt = path2 if kind in ("rename", "move") else path
        if tgt is None or not tgt.startswith(cache_root):
            return
        events.append((time.monotonic_ns(), wid, kind, os.path.relpath(tgt, cache_root)))
        if max_ms:
            time.sleep(rng.random() * max_ms / 1000.0)

    from . import env

    env.assert_repo_under_test()
    out = {"writer": wid, "oid": None, "failed": None, "error": None}
    try:
        state = env.mk_state(root, os.path.join(root, "tmp"))
        odb = env.local_odb(os.path.join(root, "cache"), state=state, tmp_dir=os.path.join(root, "tmp"))
        # start together
        while time.monotonic() < spec["start_at"]:
            time.sleep(0.0005)
        AuditHub.add(handler)
        lj = None
        if spec.get("line_jitter"):
            # statement-level descheduling inside the store / transfer / state code (see monitors.LineJitter)
            import dvc_objects.db as _odbmod

            import dvc_data.hashfile.db as _dbmod
            import dvc_data.hashfile.db.local as _localmod
            import dvc_data.hashfile.state as _statemod
            import dvc_data.hashfile.transfer as _trmod

            from .monitors import LineJitter

            lj = LineJitter([_localmod.LocalHashFileDB, _dbmod.HashFileDB, _odbmod.ObjectDB, _statemod.State, _trmod], random.Random(spec["seed"] ^ 0x5EED),
                            p=spec["line_jitter"][0], max_sleep=spec["line_jitter"][1], thread_prefix="")
            lj.__enter__()
        try:
            if spec.get("upload_rel"):
                # upload staging from a cwd-relative source path: every writer sits in its own directory and names its data "data"
                from dvc_data.hashfile.build import build as _build
                from dvc_data.hashfile.transfer import transfer as _transfer

                os.chdir(spec["upload_rel"])
                staging, _m, obj = _build(odb, "data", env.localfs(), "md5", upload=True)
                res = _transfer(staging, odb, {obj.hash_info}, shallow=False, hardlink=True)
            else:
                _s, _m, obj, res = env.stage_and_transfer(odb, spec["ws"], shallow=False)
        finally:
            if lj is not None:
                lj.__exit__()
                out["line_jitter_yields"] = lj.yields
        AuditHub.remove(handler)
        out["oid"] = obj.hash_info.value
        out["failed"] = sorted(h.value for h in res.failed)
        state.close()
    except BaseException as e:  # noqa: BLE001
        out["error"] = f"{type(e).__name__}: {e}"
        out["traceback"] = traceback.format_exc()[-3000:]
    out["events"] = events
    with open(spec["out"], "w", encoding="utf-8") as f:
        json.dump(out, f)
    return 0


if __name__ == "__main__":
    sys.exit(main(sys.argv[1:]))
