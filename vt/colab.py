"""Object-checkout lab shared by C05 and C10: caches, targets, prior workspace states."""

import os

from . import env, gen
from .oracle import H, file_bytes


def kinds_agree(prior_files, target_files):
    def dirs(fs_):
        s = set()
        for k in fs_:
            for i in range(1, len(k)):
                s.add(k[:i])
        return s

    pd, td = dirs(prior_files), dirs(target_files)
    return not (set(prior_files) & td) and not (set(target_files) & pd)


def force_kind_agreement(prior_files, target_files):
    """Drop prior paths that disagree in kind with the target."""
    td = set()
    for k in target_files:
        for i in range(1, len(k)):
            td.add(k[:i])
    out = {}
    for k, v in prior_files.items():
        if k in td:
            continue
        if any(k[:i] in target_files for i in range(1, len(k))):
            continue
        out[k] = v
    return out


def link_type_of(path, cache_root):
    """-> ('symlink', dest) | ('hardlink', ino) | ('copy', ino)"""
    st = os.lstat(path)
    import stat as _s

    if _s.S_ISLNK(st.st_mode):
        return ("symlink", os.readlink(path))
    if st.st_nlink > 1:
        return ("hardlink", st.st_ino)
    return ("copy", st.st_ino)


def populate(odb, d, files, name):
    p = os.path.join(d, name)
    gen.write_tree(p, files)
    _s, _m, obj, r = env.stage_and_transfer(odb, p)
    if r.failed:
        raise env.HarnessError("population failed")
    return obj


def user_edit(rng, ws, files, pool, allow_kind_swaps, in_place_ok):
    """Apply user edits to a checked-out workspace (on disk) and to its model `files`.
    Linked files are edited by replace-by-rename (never writing through a link into the cache)."""
    files = dict(files)
    ops = []
    for _ in range(rng.randrange(0, 5)):
        op = rng.choice(["add", "add", "modify", "modify", "delete", "extra-dir"] + (["file->dir", "dir->file"] if allow_kind_swaps else []))
        keys = sorted(files)
        if op == "add":
            dirs = sorted({k[:i] for k in files for i in range(1, len(k))})
            base = rng.choice([()] + dirs)
            k = (*base, gen.name(rng, odd=0.2))
            if k in files or any(f[: len(k)] == k for f in files) or os.path.lexists(os.path.join(ws, *k)):
                continue
            data = rng.choice(pool) if rng.random() < 0.4 else gen.small_content(rng) + b"user"
            p = os.path.join(ws, *k)
            os.makedirs(os.path.dirname(p), exist_ok=True)
            with open(p, "wb") as f:
                f.write(data)
            files[k] = data
        elif op == "modify" and keys:
            k = rng.choice(keys)
            data = rng.choice(pool) if rng.random() < 0.4 else gen.small_content(rng) + b"edit"
            p = os.path.join(ws, *k)
            st = os.lstat(p)
            if in_place_ok and not os.path.islink(p) and st.st_nlink == 1 and rng.random() < 0.5:
                os.chmod(p, 0o644)
                with open(p, "wb") as f:
                    f.write(data)
            else:
                gen.replace_by_rename(p, data)
            files[k] = data
        elif op == "delete" and len(keys) > 1:
            k = rng.choice(keys)
            os.unlink(os.path.join(ws, *k))
            del files[k]
        elif op == "extra-dir":
            k = (gen.name(rng, odd=0.2) + "-xd",)
            if not any(f[:1] == k for f in files):
                os.makedirs(os.path.join(ws, *k), exist_ok=True)
        elif op == "file->dir" and keys:
            k = rng.choice(keys)
            p = os.path.join(ws, *k)
            os.unlink(p)
            del files[k]
            os.makedirs(p)
            data = gen.small_content(rng) + b"user-in-dir"
            with open(os.path.join(p, "inner"), "wb") as f:
                f.write(data)
            files[(*k, "inner")] = data
        elif op == "dir->file":
            dirs = sorted({k[:i] for k in files for i in range(1, len(k))})
            if not dirs:
                continue
            dk = rng.choice(dirs)
            import shutil

            p = os.path.join(ws, *dk)
            shutil.rmtree(p)
            for f in [f for f in files if f[: len(dk)] == dk]:
                del files[f]
            data = gen.small_content(rng) + b"user-file"
            with open(p, "wb") as f:
                f.write(data)
            files[dk] = data
        ops.append(op)
    return files, ops


def cache_intact_digests(cache_root):
    """set of md5 digests of file objects in the cache whose bytes match their name"""
    from .oracle import list_store

    objs, _t, _s = list_store(cache_root)
    out = set()
    for oid, p in objs.items():
        if oid.endswith(".dir"):
            continue
        try:
            if H("md5", file_bytes(p)) == oid:
                out.add(oid)
        except FileNotFoundError:
            pass
    return out
