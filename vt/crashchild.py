"""Child process for crash injection:  python -m vt.crashchild SPEC.json

SPEC: {"scenario": name, "root": dir, "kill_at": n | null, "partial": bool, "record": path | null}
The scenario operates on <root>/ws (workspace), <root>/cache | <root>/src | <root>/dest (stores),
<root>/tmp (state DB).  Mutating filesystem events under <root> are counted by an audit hook; at the
kill_at-th one the process dies with os._exit(99) *before* the event executes (optionally after
performing a partial version of it), without any cleanup or flush.
"""

import json
import logging
import os
import sys

from .monitors import AuditHub


def _scenario_stage_transfer(root):
    from . import env

    state = env.mk_state(root, os.path.join(root, "tmp"))
    odb = env.local_odb(os.path.join(root, "cache"), state=state, tmp_dir=os.path.join(root, "tmp"))
    _s, _m, _obj, res = env.stage_and_transfer(odb, os.path.join(root, "ws", "data"))
    state.close()
    return {"failed": len(res.failed)}


def _scenario_index_save(root):
    from dvc_data.index import build, md5, save

    from . import env

    state = env.mk_state(root, os.path.join(root, "tmp"))
    odb = env.local_odb(os.path.join(root, "cache"), state=state, tmp_dir=os.path.join(root, "tmp"))
    idx = build(os.path.join(root, "ws", "data"), env.localfs())
    idx = md5(idx, state=state)
    save(idx, odb=odb)
    state.close()
    return {}


def _scenario_index_save_sparse(root):
    """index save where only the top-level directories carry an entry (intermediate directories are implicit)"""
    from dvc_data.index import build, md5, save

    from . import env

    state = env.mk_state(root, os.path.join(root, "tmp"))
    odb = env.local_odb(os.path.join(root, "cache"), state=state, tmp_dir=os.path.join(root, "tmp"))
    idx = build(os.path.join(root, "ws"), env.localfs())
    idx = md5(idx, state=state)
    for key, entry in list(idx.iteritems()):
        if len(key) >= 2 and entry.meta and entry.meta.isdir:
            del idx[key]
    save(idx, odb=odb)
    state.close()
    return {}


def _scenario_index_save_hardlink(root):
    """index save with hardlink=True (objects are linked into the store where the filesystem allows)"""
    from dvc_data.index import build, md5, save

    from . import env

    state = env.mk_state(root, os.path.join(root, "tmp"))
    odb = env.local_odb(os.path.join(root, "cache"), state=state, tmp_dir=os.path.join(root, "tmp"))
    idx = build(os.path.join(root, "ws", "data"), env.localfs())
    idx = md5(idx, state=state)
    save(idx, odb=odb, hardlink=True)
    state.close()
    return {}


def _closed_request(src_root, named=False):
    from . import env
    from .oracle import list_store

    objs, _t, _s = list_store(src_root)
    if named:
        # ids as dvc's collection of used objects hands them over: carrying the name of the path they came from
        from dvc_data.hashfile.hash_info import HashInfo

        return {HashInfo("md5", o, obj_name=f"data/{o[:6]}") for o in objs}
    return {env.HI("md5", o) for o in objs}


def _scenario_store_to_store(root):
    from dvc_data.hashfile.transfer import transfer

    from . import env

    state = env.mk_state(root, os.path.join(root, "tmp"))
    src = env.local_odb(os.path.join(root, "src"))
    dest = env.local_odb(os.path.join(root, "dest"), state=state, tmp_dir=os.path.join(root, "tmp"))
    res = transfer(src, dest, _closed_request(src.path), jobs=1)
    state.close()
    return {"failed": len(res.failed)}


def _scenario_store_to_store_index(root):
    """store-to-store transfer between local stores that keeps a destination index (as index push/fetch do)"""
    from dvc_data.hashfile.db.index import ObjectDBIndex
    from dvc_data.hashfile.transfer import transfer

    from . import env

    state = env.mk_state(root, os.path.join(root, "tmp"))
    src = env.local_odb(os.path.join(root, "src"))
    dest = env.local_odb(os.path.join(root, "dest"), state=state)
    index = ObjectDBIndex(os.path.join(root, "tmp"), "dest")
    res = transfer(src, dest, _closed_request(src.path, named=True), jobs=1, dest_index=index, cache_odb=src)
    index.close()
    state.close()
    return {"failed": len(res.failed)}


def _scenario_store_to_store_index_jobs(root):
    """as store-to-store-index, with a parallel status / copy phase (jobs=4): event order varies from run to run"""
    from dvc_data.hashfile.db.index import ObjectDBIndex
    from dvc_data.hashfile.transfer import transfer

    from . import env

    state = env.mk_state(root, os.path.join(root, "tmp"))
    src = env.local_odb(os.path.join(root, "src"))
    dest = env.local_odb(os.path.join(root, "dest"), state=state)
    index = ObjectDBIndex(os.path.join(root, "tmp"), "dest")
    res = transfer(src, dest, _closed_request(src.path), jobs=4, dest_index=index, cache_odb=src)
    index.close()
    state.close()
    return {"failed": len(res.failed)}


def _scenario_store_to_store_expanded(root):
    """directories requested alone, to be expanded (shallow=False), into a local store with state"""
    from dvc_data.hashfile.transfer import transfer

    from . import env

    state = env.mk_state(root, os.path.join(root, "tmp"))
    src = env.local_odb(os.path.join(root, "src"))
    dest = env.local_odb(os.path.join(root, "dest"), state=state, tmp_dir=os.path.join(root, "tmp"))
    ids = {h for h in _closed_request(src.path) if h.isdir}
    res = transfer(src, dest, ids, jobs=1, shallow=False)
    state.close()
    return {"failed": len(res.failed)}


def _scenario_upload_staging(root):
    from dvc_data.hashfile.build import build
    from dvc_data.hashfile.transfer import transfer

    from . import env

    state = env.mk_state(root, os.path.join(root, "tmp"))
    odb = env.local_odb(os.path.join(root, "cache"), state=state, tmp_dir=os.path.join(root, "tmp"))
    staging, _m, obj = build(odb, os.path.join(root, "ws", "data"), env.localfs(), "md5", upload=True)
    res = transfer(staging, odb, {obj.hash_info}, shallow=False, hardlink=True)
    state.close()
    return {"failed": len(res.failed)}


def _scenario_push_remote(root):
    """closed request from a local cache to a remote-like store, with a destination index"""
    from dvc_data.hashfile.db.index import ObjectDBIndex
    from dvc_data.hashfile.transfer import transfer

    from . import env
    from .monitors import FaultyFS

    src = env.local_odb(os.path.join(root, "src"))
    dest = env.remote_odb(os.path.join(root, "dest"), fs=FaultyFS(jobs=1))
    index = ObjectDBIndex(os.path.join(root, "tmp"), "dest")
    res = transfer(src, dest, _closed_request(src.path, named=True), jobs=1, dest_index=index, cache_odb=src)
    index.close()
    return {"failed": len(res.failed)}


def _scenario_push_expanded(root):
    from dvc_data.hashfile.transfer import transfer

    from . import env
    from .monitors import FaultyFS

    src = env.local_odb(os.path.join(root, "src"))
    dest = env.remote_odb(os.path.join(root, "dest"), fs=FaultyFS(jobs=1))
    ids = {h for h in _closed_request(src.path) if h.isdir}
    res = transfer(src, dest, ids, jobs=1, shallow=False, cache_odb=src)
    return {"failed": len(res.failed)}


def _scenario_add_files(root):
    """plain add() of hashed workspace files (what index fetch/save and dvc's cache do)"""
    from dvc_data.hashfile.hash import hash_file

    from . import env

    state = env.mk_state(root, os.path.join(root, "tmp"))
    odb = env.local_odb(os.path.join(root, "cache"), state=state, tmp_dir=os.path.join(root, "tmp"))
    fs = env.localfs()
    paths, oids = [], []
    base = os.path.join(root, "ws", "data")
    for dp, _dn, fn in sorted(os.walk(base)):
        for f in sorted(fn):
            p = os.path.join(dp, f)
            _m, hi = hash_file(p, fs, "md5", state=state)
            paths.append(p)
            oids.append(hi.value)
    odb.add(paths, fs, oids)
    state.close()
    return {}


SCENARIOS = {
    "stage-transfer": _scenario_stage_transfer,
    "index-save": _scenario_index_save,
    "index-save-sparse": _scenario_index_save_sparse,
    "store-to-store": _scenario_store_to_store,
    "store-to-store-expanded": _scenario_store_to_store_expanded,
    "store-to-store-index": _scenario_store_to_store_index,
    "store-to-store-index-jobs": _scenario_store_to_store_index_jobs,
    "store-to-store-index-wide": _scenario_store_to_store_index,
    "store-to-store-expanded-wide": _scenario_store_to_store_expanded,
    "index-save-hardlink": _scenario_index_save_hardlink,
    "upload-staging": _scenario_upload_staging,
    "push-remote": _scenario_push_remote,
    "push-expanded": _scenario_push_expanded,
    "add-files": _scenario_add_files,
}


def main(argv):
    with open(argv[0], encoding="utf-8") as f:
        spec = json.load(f)
    logging.disable(logging.CRITICAL)
    root = os.path.abspath(spec["root"])
    prefix = root + os.sep
    kill_at, partial = spec.get("kill_at"), spec.get("partial")
    by_exception = spec.get("interrupt") == "exception"
    events = []
    state = {"n": 0}

    def handler(kind, path, path2, extra):
        tgt = path2 if kind in ("rename", "move") else path
        if tgt is None:
            return
        if not os.path.isabs(tgt):
            tgt = os.path.abspath(tgt)
        if not tgt.startswith(prefix):
            return
        if kind == "move":
            return  # shutil.move reports itself and then the os.rename it performs
        state["n"] += 1
        n = state["n"]
        if kill_at is None:
            events.append([kind, os.path.relpath(tgt, root), os.path.relpath(path, root) if kind == "rename" else None])
            return
        if n == kill_at:
            if partial:
                try:
                    if kind == "copyfile" and path2:
                        with open(path2, "rb") as s:
                            data = s.read()
                        cut = len(data) // 2
                        fd = os.open(tgt, os.O_WRONLY | os.O_CREAT | os.O_TRUNC, 0o666)
                        os.write(fd, data[:cut])
                        os.close(fd)
                    elif kind == "open-w":
                        fd = os.open(tgt, extra if isinstance(extra, int) else (os.O_WRONLY | os.O_CREAT), 0o666)
                        os.close(fd)
                except OSError:
                    pass
            if by_exception:
                # interrupted by an exception instead (Ctrl-C): the stack unwinds, finally-blocks and context managers run, then the process ends
                with open(os.path.join(root, "interrupted.marker"), "w") as f_:
                    f_.write(str(n))
                raise KeyboardInterrupt
            os._exit(99)

    AuditHub.add(handler)
    from . import env

    env.assert_repo_under_test()
    out = SCENARIOS[spec["scenario"]](root)
    AuditHub.remove(handler)
    if spec.get("record"):
        with open(spec["record"], "w", encoding="utf-8") as f:
            json.dump({"events": events, "out": out}, f)
    return 0


if __name__ == "__main__":
    sys.exit(main(sys.argv[1:]))
