"""Parent side of crash injection: masters, kill-point enumeration, post-mortem audits."""

import json
import os
import shutil
import stat
import subprocess
import sys

from . import env, gen
from .common import REPO_SRC, VERIF_ROOT, _force_rmtree, h64
from .oracle import DIR_SUFFIX, H, closure_problems, file_bytes, list_store, parse_dir_bytes, store_snapshot

CHILD_TIMEOUT = 120


def child_env(hashseed):
    e = dict(os.environ)
    e["PYTHONPATH"] = os.pathsep.join([REPO_SRC, VERIF_ROOT])
    e["PYTHONHASHSEED"] = str(hashseed)
    e["PYTHONDONTWRITEBYTECODE"] = "1"
    e["TQDM_DISABLE"] = "1"
    return e


def run_child(scenario, root, kill_at=None, partial=False, record=None, hashseed=0, interrupt=None):
    spec = {"scenario": scenario, "root": root, "kill_at": kill_at, "partial": partial, "record": record, "interrupt": interrupt}
    sp = os.path.join(os.path.dirname(root), f"spec-{os.path.basename(root)}.json")
    with open(sp, "w", encoding="utf-8") as f:
        json.dump(spec, f)
    try:
        p = subprocess.run(
            [sys.executable, "-m", "vt.crashchild", sp], cwd=VERIF_ROOT, env=child_env(hashseed),
            capture_output=True, timeout=CHILD_TIMEOUT,
        )
    except subprocess.TimeoutExpired:
        return None, b"timeout"
    return p.returncode, p.stderr[-2000:]


def copy_master(master, dst):
    _force_rmtree(dst)
    shutil.copytree(master, dst, symlinks=True)
    # copytree keeps modes (0o444 objects stay protected)


STORE_DIRS = {
    "stage-transfer": ["cache"], "index-save": ["cache"], "index-save-sparse": ["cache"], "store-to-store": ["dest"], "store-to-store-expanded": ["dest"], "upload-staging": ["cache"],
    "push-remote": ["dest"], "push-expanded": ["dest"], "add-files": ["cache"], "store-to-store-index": ["dest"], "store-to-store-index-jobs": ["dest"], "store-to-store-index-wide": ["dest"], "store-to-store-expanded-wide": ["dest"], "index-save-hardlink": ["cache"],
}
NEEDS_SRC = {"store-to-store", "store-to-store-index", "store-to-store-index-jobs", "store-to-store-index-wide", "store-to-store-expanded-wide", "store-to-store-expanded", "push-remote", "push-expanded"}
HAS_STATE = {"store-to-store-index", "store-to-store-index-jobs", "store-to-store-index-wide", "store-to-store-expanded-wide", "index-save-hardlink", "stage-transfer", "index-save", "index-save-sparse", "store-to-store", "store-to-store-expanded", "upload-staging", "add-files"}


def make_master(ctx, rng, scenario, d):
    """Populate <d>/master for the scenario; -> dict describing the data."""
    m = os.path.join(d, "master")
    os.makedirs(m)
    pool = [gen.small_content(rng) for _ in range(3)] + [b""]
    files, empties = gen.tree(rng, depth=2, fanout=3, pool_=pool, dup=0.5, odd=0.2, min_files=3)
    # keep scenarios small: the number of kill points grows with the number of files
    keys = sorted(files)[:7]
    files = {k: files[k] for k in keys}
    if scenario.endswith("-wide"):
        # more objects than any round / batch size a transfer may use
        tag = rng.getrandbits(32)
        for i in range(75 if scenario == "store-to-store-expanded-wide" else 1003):
            files[("wide", f"f{i:04d}")] = b"w %d %d" % (tag, i)
    if scenario in NEEDS_SRC:
        ws = os.path.join(d, "ws-tmp")
        src = env.local_odb(os.path.join(m, "src"))
        p = os.path.join(ws, "data")
        gen.write_tree(p, files)
        env.stage_and_transfer(src, p)
        if True:  # always: a second directory that shares files with the first
            files2 = {("again", *k): v for k, v in list(files.items())[:2]}
            files2[("own",)] = gen.small_content(rng)
            p2 = os.path.join(ws, "data2")
            gen.write_tree(p2, files2)
            env.stage_and_transfer(src, p2)
        env.reset_staging()
        _force_rmtree(ws)
        os.makedirs(os.path.join(m, "dest"))
    else:
        gen.write_tree(os.path.join(m, "ws", "data"), files, empties)
        os.makedirs(os.path.join(m, "cache"))
    os.makedirs(os.path.join(m, "tmp"))
    return {"files": {"/".join(k): len(v) for k, v in files.items()}, "nfiles": len(files)}


def audit_after(root, scenario, check_state=True):
    """Post-mortem: -> (problems [(key, what)], info)"""
    problems = []
    info = {"objects": 0, "mismatching_unprotected": 0, "temps": 0, "leftover_oids": [], "bad_oids": []}
    for sd in STORE_DIRS[scenario]:
        sroot = os.path.join(root, sd)
        objs, temps, _s = list_store(sroot)
        info["temps"] += len(temps)
        state = None
        if check_state and scenario in HAS_STATE:
            try:
                state = env.mk_state(root, os.path.join(root, "tmp"))
            except Exception as e:  # noqa: BLE001
                problems.append(("state-db-unopenable", f"state DB cannot be opened after the crash: {type(e).__name__}: {e}"))
        valid = set()
        for oid, p in objs.items():
            info["objects"] += 1
            data = file_bytes(p)
            base = oid[: -len(DIR_SUFFIX)] if oid.endswith(DIR_SUFFIX) else oid
            if H("md5", data) == base:
                valid.add(oid)
                continue
            mode = stat.S_IMODE(os.lstat(p).st_mode)
            vouched = False
            if state is not None:
                try:
                    _meta, hi = state.get(p, env.localfs())
                    vouched = hi is not None and hi.value is not None and hi.value.split(".")[0] == base
                except Exception as e:  # noqa: BLE001
                    problems.append(("state-db-unreadable", f"state lookup failed: {type(e).__name__}: {e}"))
            if mode == 0o444:
                problems.append(("mismatching-object-protected", f"object {oid} ({len(data)} bytes) does not match its name and is read-only"))
                info["bad_oids"].append(oid)
            elif vouched:
                problems.append(("mismatching-object-vouched", f"object {oid} does not match its name and the state DB vouches for it"))
                info["bad_oids"].append(oid)
            else:
                info["mismatching_unprotected"] += 1
                info["leftover_oids"].append(oid)
        if state is not None:
            try:
                state.close()
            except Exception:  # noqa: BLE001
                pass
        for oid in sorted(valid):
            if not oid.endswith(DIR_SUFFIX):
                continue
            try:
                listing, _f = parse_dir_bytes(file_bytes(objs[oid]))
            except ValueError:
                continue
            bad = sorted(v for v in set(listing.values()) if v not in valid)
            if bad:
                problems.append(("dir-object-without-valid-files", f"directory object {oid} present but listed file(s) {bad[:2]} absent or invalid"))
                info.setdefault("dir_bad_children", []).extend(bad)
    return problems, info


def contents(root, scenario):
    out = {}
    for sd in STORE_DIRS[scenario]:
        out[sd] = {o: h64(b) for o, b in store_snapshot(os.path.join(root, sd)).items()}
    return out


def interesting_kills(events):
    """indices (1-based) of events that touch a final object name or protect/vouch something"""
    out = set()
    for i, (kind, tgt, _src) in enumerate(events, 1):
        parts = tgt.split(os.sep)
        if len(parts) == 3 and len(parts[1]) == 2 and not parts[2].endswith(".tmp"):
            out.add(i)
            out.add(i + 1)
    return {i for i in out if 1 <= i <= len(events)}


def crash_rounds(ctx, scenario, rng, case, every, on_kill=None, check_rerun=True, tag="", stripe=None):
    """Enumerate kill points of one (scenario, generated master).  Kill points are striped over
    the shards (every shard rebuilds the same master from the same rng)."""
    res = ctx.res
    d = ctx.fresh("cr")
    hashseed = int(h64(ctx.seed, scenario, case), 16) % 1000
    desc = make_master(ctx, rng, scenario, d)
    master = os.path.join(d, "master")
    # record run
    rec_root = os.path.join(d, "rec")
    copy_master(master, rec_root)
    rec_file = os.path.join(d, "rec.json")
    rc, err = run_child(scenario, rec_root, record=rec_file, hashseed=hashseed)
    if rc != 0:
        raise env.HarnessError(f"record run of {scenario} failed rc={rc}: {err[-400:]!r}")
    with open(rec_file, encoding="utf-8") as f:
        rec = json.load(f)
    events = rec["events"]
    golden = contents(rec_root, scenario)
    gprobs, _i = audit_after(rec_root, scenario)
    if gprobs:
        for key, what in gprobs:
            res.violation(f"{scenario}/uninterrupted-run/{key}", what, case=case)
    N = len(events)
    res.setmax(f"max/events/{scenario}", N)
    res.sample({"scenario": scenario, "files": desc["files"], "mutating_events": N, "first_events": events[:6], "every": every})
    kills = set(range(1, N + 1)) if every == 1 else (set(range(1, N + 1, every)) | interesting_kills(events))
    if every != 1:
        # whatever the stride lands on, a copy and a write cut half way are always among the kill points
        for kind_ in ("copyfile", "open-w"):
            first_ = next((i for i, (k_, _t, _s) in enumerate(events, 1) if k_ == kind_), None)
            if first_:
                kills.add(first_)
    if scenario.endswith("-wide"):
        # thousands of events: the ones that write a directory object (and their neighbours), plus a spread of others
        dir_events = {i for i, (_k, tgt, _s) in enumerate(events, 1) if tgt.endswith(DIR_SUFFIX)}
        kills = {j for i in dir_events for j in (i - 1, i, i + 1, i + 2) if 1 <= j <= N} | set(range(1, N + 1, max(1, N // 10)))
        if scenario == "store-to-store-expanded-wide":
            kills |= set(range(max(1, N - 120), N + 1))  # the tail: most files have arrived, the directory object has not
    plan = [(n, partial) for n in sorted(kills) for partial in (False, True)]
    # ... and, at the events that create or drop something under a final object name, an interruption by exception (Ctrl-C) as well
    exc_points = [n for n in sorted(kills & interesting_kills(events)) if events[n - 1][0] in ("open-w", "remove")]
    if every != 1:
        exc_points = exc_points[:4]
    plan += [(n, "exception") for n in exc_points]
    run_root = os.path.join(d, "run")
    for j, (n, partial) in enumerate(plan):
        if (j % ctx.nshards != ctx.shard) if stripe is None else (j % stripe[1] != stripe[0]):
            continue
        if ctx.out_of_time():
            res.count("stopped_by_time_budget")
            break
        kind = events[n - 1][0]
        by_exc = partial == "exception"
        if partial and not by_exc and kind not in ("copyfile", "open-w"):
            continue
        copy_master(master, run_root)
        rc, err = run_child(scenario, run_root, kill_at=n, partial=False if by_exc else partial, hashseed=hashseed, interrupt="exception" if by_exc else None)
        res.count("crash_children")
        if by_exc:
            reached = os.path.exists(os.path.join(run_root, "interrupted.marker"))
            if reached:
                os.unlink(os.path.join(run_root, "interrupted.marker"))
                res.count("interrupted_by_exception")
            rc = 99 if (reached and rc != 0) else rc
        if rc != 99:
            res.count("kill_point_not_reached")
            res.notes.append(f"{scenario} kill_at={n} rc={rc} {err[-200:]!r}")
            continue
        res.evaluated()
        res.nontrivial(scenario, tag, desc["files"], n, partial)
        res.count(f"killed_at/{kind}" + ("/exception" if by_exc else "/partial" if partial else ""))
        ctxinfo = {"scenario": scenario, "kill_at": n, "of": N, "event": events[n - 1], "partial": partial, "files": desc["files"]}
        if by_exc:
            scenario_key = scenario  # (keys stay per scenario; the variant is in the detail)
        probs, info = audit_after(run_root, scenario)
        res.count("temp_leftovers", info["temps"])
        res.count("unprotected_mismatching_leftovers", info["mismatching_unprotected"])
        for key, what in probs:
            res.violation(f"{scenario}/after-crash/{key}", f"{what} (killed at event {n}/{N}: {events[n - 1][0]} {events[n - 1][1]})", case=case, detail=ctxinfo)
        if on_kill:
            on_kill(run_root, ctxinfo)
        if check_rerun:
            rc2, err2 = run_child(scenario, run_root, hashseed=hashseed)
            res.count("reruns")
            if rc2 != 0:
                res.violation(f"{scenario}/rerun/failed", f"re-running the interrupted operation failed (rc={rc2}): {err2[-300:].decode('utf-8', 'replace')}", case=case, detail=ctxinfo)
                continue
            probs2, info2 = audit_after(run_root, scenario)
            leftover = set(info["leftover_oids"])
            for key, what in probs2:
                # mechanism: was the offending object the unprotected leftover of the crash, which the
                # re-run then trusted (skipped as existing, protected, recorded)?
                if key in ("mismatching-object-protected", "mismatching-object-vouched") and set(info2["bad_oids"]) <= leftover:
                    key = "crash-leftover-object-trusted-by-rerun"
                elif key == "dir-object-without-valid-files" and set(info2.get("dir_bad_children", [])) <= leftover:
                    key = "dir-lists-crash-leftover-object"
                res.violation(f"{scenario}/rerun/{key}", f"after re-run: {what} (had been killed at {events[n - 1][0]} {events[n - 1][1]})", case=case, detail=ctxinfo)
            if info2["mismatching_unprotected"]:
                res.violation(f"{scenario}/rerun/mismatching-object-left", "after re-run an object still does not match its name", case=case, detail=ctxinfo)
            now = contents(run_root, scenario)
            if now != golden and not probs2 and not info2["mismatching_unprotected"]:
                diff = {sd: sorted(set(golden[sd]) ^ set(now[sd]))[:4] for sd in golden}
                res.violation(f"{scenario}/rerun/differs-from-golden", f"store contents after re-run differ from an uninterrupted run: {diff}", case=case, detail=ctxinfo)
    ctx.drop(d)


def run_c04_crash_rounds(ctx):
    """C04: at every kill point of a closed transfer the destination is closed, and a retry completes."""
    res = ctx.res
    n = 2 if ctx.tier == "quick" else 12
    every = 3 if ctx.tier == "quick" else 1
    base = 10_000_000
    for i in range(n):
        if ctx.replay_case is not None and ctx.replay_case != base + i:
            continue
        from .common import case_rng

        rng = case_rng(ctx.pid, ctx.seed, 0, base + i, "crash")  # same master in every shard
        scenario = ["push-remote", "store-to-store", "push-expanded"][i % 3]

        def on_kill(root, info, scenario=scenario, i=i):
            for sd in STORE_DIRS[scenario]:
                probs, _n = closure_problems(os.path.join(root, sd))
                res.count("states_observed")
                for doid, missing in probs:
                    res.violation(
                        "dir-present-without-its-files/after-crash",
                        f"killed at event {info['kill_at']}/{info['of']}: directory object {doid} present, file(s) {missing[:2]} absent",
                        case=base + i, detail=info,
                    )

        ctx.guard(base + i, crash_rounds, ctx, scenario, rng, base + i, every, on_kill, True, "c04")
